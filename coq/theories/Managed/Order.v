(* C08: reuse order, lazy creation, no background work. *)
From Coq Require Import List ZArith Lia Bool Arith.
From DP Require Import Common.Tab Managed.Model Managed.Contrib Managed.Simp Managed.InvQ
  Managed.Effects Managed.StepCases Managed.Frame Managed.InvG Managed.InvClose Managed.Count
  Managed.Recs Managed.InvW Managed.Others Managed.All.
Import ListNotations.
Open Scope Z_scope.

(* the idle queue is ordered by the time the objects became idle, oldest first *)
Fixpoint ssorted (l : list obj) : Prop :=
  match l with
  | [] => True
  | o :: r => (forall y, In y r -> (since o < since y)%nat) /\ ssorted r
  end.

Lemma ssorted_snoc l x : ssorted l -> (forall y, In y l -> (since y < since x)%nat) -> ssorted (l ++ [x]).
Proof.
  induction l as [|o r IH]; simpl; intros H Hx.
  - split; [intros y []|exact I].
  - destruct H as [H1 H2]. split.
    + intros y Hy. apply in_app_or in Hy. destruct Hy as [Hy|[<-|[]]]; [apply H1, Hy|apply Hx; left; reflexivity].
    + apply IH; [exact H2|]. intros y Hy. apply Hx. right. exact Hy.
Qed.

Lemma ssorted_app_inv l1 l2 : ssorted (l1 ++ l2) ->
  ssorted l1 /\ ssorted l2 /\ (forall x y, In x l1 -> In y l2 -> (since x < since y)%nat).
Proof.
  induction l1 as [|o r IH]; simpl; intros H.
  - splits; [exact I|exact H|intros x y []].
  - destruct H as [H1 H2]. destruct (IH H2) as (I1&I2&I3). splits.
    + intros y Hy. apply H1. apply in_or_app. left. exact Hy.
    + exact I1.
    + exact I2.
    + intros x y [<-|Hx] Hy; [apply H1; apply in_or_app; right; exact Hy|apply I3; assumption].
Qed.

Lemma ssorted_skipn k l : ssorted l -> ssorted (skipn k l).
Proof.
  revert l; induction k as [|k IH]; intros [|o r]; cbn [skipn ssorted]; try tauto.
  intros [_ H]. apply IH, H.
Qed.

(* Fifo offers the object that has been idle longest, Lifo the one returned most recently *)
Lemma pop_idle_order c v o r :
  ssorted v -> pop_idle c v = Some (o, r) ->
  ssorted r /\ (if lifo c then forall y, In y r -> (since y < since o)%nat
                else forall y, In y r -> (since o < since y)%nat).
Proof.
  intros Hs. unfold pop_idle. destruct (lifo c).
  - destruct (rev v) as [|y l] eqn:E; [discriminate|]. intros H. inversion H; subst.
    assert (Ev : v = rev l ++ [o]) by (rewrite <- (rev_involutive v), E; reflexivity).
    rewrite Ev in Hs. destruct (ssorted_app_inv _ _ Hs) as (S1&S2&S3).
    split; [exact S1|]. intros z Hz. apply S3; [exact Hz|left; reflexivity].
  - destruct v as [|y l]; [discriminate|]. intros H. inversion H; subst.
    cbn [ssorted] in Hs. destruct Hs as [H1 H2]. split; [exact H2|exact H1].
Qed.

Definition SI (s : state) : Prop :=
  ssorted (vec s) /\ (forall y, In y (vec s) -> (since y < clock s)%nat).

Lemma SI_init c : SI (init c).
Proof. split; [exact I|intros y []]. Qed.

Lemma retain_loop_sorted t ds v s :
  ssorted v ->
  let '(s', kept, removed) := retain_loop t ds v s in ssorted kept /\ (forall y, In y kept -> In y v).
Proof.
  revert ds s; induction v as [|o r IH]; intros ds s Hs; cbn [retain_loop]; [split; [exact I|tauto]|].
  cbn [ssorted] in Hs. destruct Hs as [H1 H2].
  destruct (match ds with [] => true | d :: _ => d end).
  - match goal with |- context [retain_loop t ?d r ?z] =>
      specialize (IH d z H2); destruct (retain_loop t d r z) as [[s2 k2] r2] end.
    destruct IH as [I1 I2]. split.
    + cbn [ssorted]. split; [intros y Hy; apply H1, I2, Hy|exact I1].
    + intros y [<-|Hy]; [left; reflexivity|right; apply I2, Hy].
  - match goal with |- context [retain_loop t ?d r ?z] =>
      specialize (IH d z H2); destruct (retain_loop t d r z) as [[s2 k2] r2] end.
    destruct IH as [I1 I2]. split; [exact I1|]. intros y Hy. right. apply I2, Hy.
Qed.

Lemma shrink_idle_sorted t fuel s : ssorted (vec s) -> ssorted (vec (shrink_idle t fuel s)).
Proof. intros H. destruct (shrink_idle_vec t fuel s) as [k Hk]. rewrite Hk. apply ssorted_skipn, H. Qed.

Lemma resize_locked_sorted s t n : ssorted (vec s) -> ssorted (vec (resize_locked s t n)).
Proof.
  intros H. unfold resize_locked. cbv zeta.
  match goal with |- context [shrink_idle t ?f ?y] =>
    pose proof (shrink_idle_sorted t f y) as K; set (s1 := shrink_idle t f y) in * end.
  sp. specialize (K H).
  destruct (Z.ltb n (maxs s)); [sp; exact K|].
  destruct (Z.ltb (maxs s) n); [|exact K].
  match goal with |- context [sem_add_n ?k ?y] =>
    pose proof (sem_add_n_fields k y) as (F1&_) end.
  rewrite F1. sp. exact K.
Qed.

Theorem SI_step c s l s' : SI s -> step c s l = Some s' -> SI s'.
Proof.
  intros [S1 S2] H. pose proof H as H0.
  assert (Hk : forall y, In y (vec s) -> (since y < S (clock s))%nat) by (intros y Hy; specialize (S2 y Hy); lia).
  step_leaves H; unfold SI; sp; autorewrite with fld; sp.
  all: try (split; [exact S1|exact Hk]).
  all: try (split; [exact S1|exact S2]).
  - (* pop *)
    match goal with E : pop_idle _ (vec s) = Some _ |- _ =>
      destruct (pop_idle_order _ _ _ _ S1 E) as [P1 _]; destruct (pop_idle_in _ _ _ _ E) as [_ P2] end.
    split; [exact P1|]. intros y Hy. apply Hk, P2, Hy.
  - (* push: the new idle object is younger than all others *)
    split.
    + apply ssorted_snoc; [exact S1|]. intros y Hy. cbn [idle_at since]. apply S2, Hy.
    + intros y Hy. apply in_app_or in Hy. destruct Hy as [Hy|[<-|[]]]; [apply Hk, Hy|cbn [idle_at since]; lia].
  - (* drop pool *)
    split; [exact I|intros y []].
  - (* resize *)
    split; [apply resize_locked_sorted, S1|]. intros y Hy. apply Hk. eapply in_vec_resize. exact Hy.
  - (* retain *)
    match goal with E : retain_loop ?t ?ds (vec s) s = (?s1, ?kept, ?rem) |- _ =>
      pose proof (retain_loop_sorted t ds (vec s) s S1) as R; rewrite E in R; destruct R as [R1 R2];
      pose proof (retain_loop_effect t ds (vec s) s) as F; rewrite E in F;
      destruct F as (F1&F2&F3&F4&F5&F6&F7&F8&F9&F10&F11&F12&F13&F14) end.
    split; [exact R1|]. intros y Hy. rewrite F12. apply Hk, R2, Hy.
  - (* close *)
    split; [apply resize_locked_sorted; sp; exact S1|]. intros y Hy. apply Hk.
    apply in_vec_resize in Hy. sp. exact Hy.
Qed.

Lemma SI_run c tr : forall s s', SI s -> run c s tr = Some s' -> SI s'.
Proof.
  induction tr as [|l tr IH]; intros s s' S H; cbn [run] in H.
  - inversion H; subst. exact S.
  - destruct (step c s l) as [s1|] eqn:E; [|discriminate].
    apply (IH s1 s'); [eapply SI_step; eassumption|exact H].
Qed.

Theorem reachable_SI c s : Reachable c s -> SI s.
Proof. intros [tr H]. eapply SI_run; [apply SI_init|exact H]. Qed.

(* get() offers the idle object that has been idle longest (Fifo) / most recently (Lifo),
   whatever returns, rejected objects, retains and resizes happened before *)
Theorem reuse_order c s t g o r :
  Reachable c s -> pcof s t = GPop g -> pop_idle c (vec s) = Some (o, r) ->
  (exists s', step c s (Step t) = Some s' /\ (exists st, pcof s' t = GRec g o st) /\ vec s' = r)
  /\ (if lifo c then forall y, In y r -> (since y < since o)%nat
      else forall y, In y r -> (since o < since y)%nat).
Proof.
  intros R Hpc Hp. destruct (reachable_SI c s R) as [S1 S2].
  destruct (pop_idle_order c (vec s) o r S1 Hp) as [_ Ho]. split; [|exact Ho].
  cbn [step]. unfold step_task. rewrite Hpc, Hp. cbn [option_map]. eexists. split; [reflexivity|].
  unfold enter_stage. split; [eexists; change (pcof (tick ?x) t) with (pcof x t); apply pcof_setpc_same|reflexivity].
Qed.

(* ---- lazy creation: the manager is asked to create only by a get that found no idle object *)
Fixpoint creates (l : list event) : nat :=
  match l with
  | [] => 0
  | ECreateCall _ :: r => S (creates r)
  | _ :: r => creates r
  end.

Lemma retain_loop_creates t ds v s :
  creates (log (fst (fst (retain_loop t ds v s)))) = creates (log s).
Proof.
  revert ds s; induction v as [|o r IH]; intros ds s; cbn [retain_loop]; [reflexivity|].
  destruct (match ds with [] => true | d :: _ => d end).
  - match goal with |- context [retain_loop t ?d r ?y] =>
      specialize (IH d y); destruct (retain_loop t d r y) as [[s2 k2] r2] end.
    cbn [fst] in *. rewrite IH. reflexivity.
  - match goal with |- context [retain_loop t ?d r ?y] =>
      specialize (IH d y); destruct (retain_loop t d r y) as [[s2 k2] r2] end.
    cbn [fst] in *. rewrite IH. reflexivity.
Qed.

Lemma emit_removed_creates t l s : creates (log (emit_removed t l s)) = creates (log s).
Proof. revert s; induction l as [|o r IH]; intros s; cbn [emit_removed]; [reflexivity|]. rewrite IH. reflexivity. Qed.
Lemma emit_destroyed_creates t l s : creates (log (emit_destroyed t l s)) = creates (log s).
Proof. revert s; induction l as [|o r IH]; intros s; cbn [emit_destroyed]; [reflexivity|]. rewrite IH. reflexivity. Qed.
Lemma shrink_idle_creates t fuel s : creates (log (shrink_idle t fuel s)) = creates (log s).
Proof.
  revert s; induction fuel as [|f IH]; intros s; cbn [shrink_idle]; [reflexivity|].
  destruct (Z.ltb (maxs s) (size s)); [|reflexivity]. destruct (vec s); [reflexivity|]. rewrite IH. reflexivity.
Qed.
Lemma resize_locked_creates s t n : creates (log (resize_locked s t n)) = creates (log s).
Proof.
  unfold resize_locked. cbv zeta.
  match goal with |- context [shrink_idle t ?f ?y] =>
    pose proof (shrink_idle_creates t f y) as K; set (s1 := shrink_idle t f y) in * end.
  sp. destruct (Z.ltb n (maxs s)); [sp; exact K|].
  destruct (Z.ltb (maxs s) n); [|exact K].
  match goal with |- context [sem_add_n ?k ?y] =>
    pose proof (sem_add_n_fields k y) as (_&_&_&_&_&_&_&_&_&_&F11) end.
  rewrite F11. sp. exact K.
Qed.
Lemma next_stage_creates c s t g o st : creates (log (next_stage c s t g o st)) = creates (log s).
Proof.
  unfold next_stage, enter_stage, hand_out.
  repeat match goal with
         | |- context [match ?y with _ => _ end] => destruct y
         end; reflexivity.
Qed.

Theorem create_only_when_empty c s l s' :
  step c s l = Some s' ->
  creates (log s') = creates (log s)
  \/ (creates (log s') = S (creates (log s))
      /\ exists t g, l = Step t /\ pcof s t = GPop g /\ vec s = [] /\ pcof s' t = GCreate g).
Proof.
  intros H.
  step_leaves H; sp; autorewrite with fld; sp;
    rewrite ?resize_locked_creates, ?next_stage_creates, ?emit_removed_creates, ?emit_destroyed_creates;
    try (left; reflexivity).
  - (* the pop found an object: the first stage call is not a create *)
    left. destruct (first_stage c); reflexivity.
  - right. split; [reflexivity|]. exists t, g. splits; try reflexivity; try assumption.
    + apply (pop_idle_none c). assumption.
    + apply pcof_setpc_same.
  - right. split; [reflexivity|]. exists t, g. splits; try reflexivity; try assumption.
    + apply (pop_idle_none c). assumption.
    + apply pcof_setpc_same.
  - right. split; [reflexivity|]. exists t, g. splits; try reflexivity; try assumption.
    + apply (pop_idle_none c). assumption.
    + apply pcof_setpc_same.
  - left. match goal with E : retain_loop ?t ?ds ?v ?s0 = (?s1, _, _) |- _ =>
      pose proof (retain_loop_creates t ds v s0) as K; rewrite E in K; cbn [fst] in K end.
    sp. cbn [creates]. exact K.
Qed.

(* building a pool calls nothing *)
Lemma init_silent c : log (init c) = [] /\ creates (log (init c)) = 0%nat.
Proof. split; reflexivity. Qed.

(* nothing happens in the background: the log only grows in a Step or Env of a task that is
   inside an operation a caller issued (get, return, take, retain, resize, close, status,
   drop of the last handle); issuing an operation, cancelling and timers emit nothing *)
Lemma log_only_in_operations c s l s' :
  step c s l = Some s' -> log s' <> log s ->
  exists t, (l = Step t \/ exists r, l = Env t r) /\ pcof s t <> PNone.
Proof.
  intros H Hl.
  step_leaves H; sp; autorewrite with fld in Hl; sp;
    try (exfalso; apply Hl; reflexivity);
    try (eexists; split; [left; reflexivity|]; match goal with E : pcof _ _ = _ |- _ => rewrite E; discriminate end);
    try (eexists; split; [right; eexists; reflexivity|]; match goal with E : pcof _ _ = _ |- _ => rewrite E; discriminate end).
Qed.
