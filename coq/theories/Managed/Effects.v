(* What the composite helpers (sem_add, sem_add_n, shrink_idle, resize_locked, retain_loop,
   emit helpers) do to each field of the state. Later proofs only use these lemmas. *)
From Coq Require Import List ZArith Lia Bool Arith.
From DP Require Import Common.Tab Managed.Model Managed.Contrib Managed.Simp Managed.InvQ.
Import ListNotations.
Open Scope Z_scope.

(* ---------- fields sem_add never touches *)
Ltac sem_add_field :=
  intros; unfold sem_add;
  match goal with |- context [queue ?s] => destruct (queue s) as [|? ?]; [reflexivity|] end;
  match goal with |- context [pcof ?s ?w] => destruct (pcof s w); reflexivity end.

Lemma sem_add_vec s : vec (sem_add s) = vec s. Proof. sem_add_field. Qed.
Lemma sem_add_size s : size (sem_add s) = size s. Proof. sem_add_field. Qed.
Lemma sem_add_maxs s : maxs (sem_add s) = maxs s. Proof. sem_add_field. Qed.
Lemma sem_add_debt s : debt (sem_add s) = debt s. Proof. sem_add_field. Qed.
Lemma sem_add_users s : users (sem_add s) = users s. Proof. sem_add_field. Qed.
Lemma sem_add_out s : out (sem_add s) = out s. Proof. sem_add_field. Qed.
Lemma sem_add_alive s : alive (sem_add s) = alive s. Proof. sem_add_field. Qed.
Lemma sem_add_closed s : closed (sem_add s) = closed s. Proof. sem_add_field. Qed.
Lemma sem_add_clock s : clock (sem_add s) = clock s. Proof. sem_add_field. Qed.
Lemma sem_add_next_oid s : next_oid (sem_add s) = next_oid s. Proof. sem_add_field. Qed.
Lemma sem_add_log s : log (sem_add s) = log s. Proof. sem_add_field. Qed.

#[export] Hint Rewrite sem_add_vec sem_add_size sem_add_maxs sem_add_debt sem_add_users
  sem_add_out sem_add_alive sem_add_closed sem_add_clock sem_add_next_oid sem_add_log : fld.

Lemma sem_add_n_fields n s :
  vec (sem_add_n n s) = vec s /\ size (sem_add_n n s) = size s /\ maxs (sem_add_n n s) = maxs s
  /\ debt (sem_add_n n s) = debt s /\ users (sem_add_n n s) = users s /\ out (sem_add_n n s) = out s
  /\ alive (sem_add_n n s) = alive s /\ closed (sem_add_n n s) = closed s
  /\ clock (sem_add_n n s) = clock s /\ next_oid (sem_add_n n s) = next_oid s
  /\ log (sem_add_n n s) = log s.
Proof.
  revert s; induction n as [|n IH]; intros s; cbn [sem_add_n]; [repeat split|].
  destruct (IH (sem_add s)) as (H1&H2&H3&H4&H5&H6&H7&H8&H9&H10&H11).
  rewrite H1, H2, H3, H4, H5, H6, H7, H8, H9, H10, H11. autorewrite with fld. repeat split.
Qed.

(* ---------- the arithmetic effect of sem_add *)
Lemma sem_add_sums s :
  GQ s ->
  permits (sem_add s) + sum hp (tasks (sem_add s)) = permits s + sum hp (tasks s) + 1
  /\ sum cs (tasks (sem_add s)) = sum cs (tasks s)
  /\ sum up (tasks (sem_add s)) = sum up (tasks s)
  /\ sum ell (tasks (sem_add s)) = sum ell (tasks s)
  /\ sum inget (tasks (sem_add s)) = sum inget (tasks s).
Proof.
  intros G. destruct (sem_add_cases s G) as [[Eq ->]|(w & q & g & Eq & Hw & Hp & ->)].
  - sp. repeat split; lia.
  - rewrite !sum_setpc by reflexivity. sp. unfold pcof in *. sp. rewrite Hw. cbn [hp cs up ell inget].
    repeat split; lia.
Qed.

Lemma sem_add_n_sums n s :
  GQ s ->
  permits (sem_add_n n s) + sum hp (tasks (sem_add_n n s)) = permits s + sum hp (tasks s) + Z.of_nat n
  /\ sum cs (tasks (sem_add_n n s)) = sum cs (tasks s)
  /\ sum up (tasks (sem_add_n n s)) = sum up (tasks s)
  /\ sum ell (tasks (sem_add_n n s)) = sum ell (tasks s)
  /\ sum inget (tasks (sem_add_n n s)) = sum inget (tasks s).
Proof.
  revert s; induction n as [|n IH]; intros s G; cbn [sem_add_n].
  - repeat split; lia.
  - destruct (IH (sem_add s) (GQ_sem_add s G)) as (H1&H2&H3&H4&H5).
    destruct (sem_add_sums s G) as (K1&K2&K3&K4&K5).
    rewrite H1, H2, H3, H4, H5, K2, K3, K4, K5. repeat split; lia.
Qed.

(* ---------- shrink_idle *)
Lemma shrink_idle_effect t fuel s :
  let s' := shrink_idle t fuel s in
  permits s' = permits s /\ closed s' = closed s /\ queue s' = queue s /\ maxs s' = maxs s
  /\ debt s' = debt s /\ users s' = users s /\ tasks s' = tasks s /\ out s' = out s
  /\ alive s' = alive s /\ clock s' = clock s /\ next_oid s' = next_oid s
  /\ size s' - zlen (vec s') = size s - zlen (vec s)
  /\ zlen (vec s') <= zlen (vec s).
Proof.
  revert s; induction fuel as [|f IH]; intros s; cbn [shrink_idle].
  - repeat split; try reflexivity; lia.
  - destruct (Z.ltb (maxs s) (size s)).
    + destruct (vec s) as [|o r] eqn:Ev.
      * cbv zeta. rewrite ?Ev. repeat split; try reflexivity; lia.
      * match goal with |- context [shrink_idle t f ?x] => specialize (IH x); set (s1 := x) in * end.
        cbv zeta in IH. destruct IH as (H1&H2&H3&H4&H5&H6&H7&H8&H9&H10&H11&H12&H13).
        subst s1. sp. rewrite H1, H2, H3, H4, H5, H6, H7, H8, H9, H10, H11.
        repeat split; try reflexivity; rewrite ?zlen_cons in *; lia.
    + repeat split; try reflexivity; lia.
Qed.

Lemma shrink_idle_vec t fuel s : exists k, vec (shrink_idle t fuel s) = skipn k (vec s).
Proof.
  revert s; induction fuel as [|f IH]; intros s; cbn [shrink_idle].
  - exists O. reflexivity.
  - destruct (Z.ltb (maxs s) (size s)); [|exists O; reflexivity].
    destruct (vec s) as [|o r] eqn:Ev; [exists O; rewrite Ev; reflexivity|].
    match goal with |- context [shrink_idle t f ?x] => destruct (IH x) as [k Hk] end.
    exists (S k). rewrite Hk. sp. reflexivity.
Qed.

(* ---------- resize_locked *)
Lemma GQ_permits_le s v : GQ s -> 0 <= v -> v <= permits s -> (queue s <> [] -> v = permits s) ->
  GQ (set_permits s v).
Proof.
  intros [H1 H2 H3 H4 H5] Hv Hle Hq. constructor; sp; try assumption.
  intros Hne. rewrite (Hq Hne). apply H3, Hne.
Qed.

Lemma resize_locked_effect s t n :
  GQ s -> 0 <= debt s -> 0 <= n ->
  let s' := resize_locked s t n in
  maxs s' = n /\ out s' = out s /\ users s' = users s /\ alive s' = alive s /\ closed s' = closed s
  /\ clock s' = clock s /\ next_oid s' = next_oid s
  /\ permits s' + sum hp (tasks s') - debt s' = permits s + sum hp (tasks s) - debt s - (maxs s - n)
  /\ size s' - zlen (vec s') = size s - zlen (vec s)
  /\ sum cs (tasks s') = sum cs (tasks s) /\ sum up (tasks s') = sum up (tasks s)
  /\ sum ell (tasks s') = sum ell (tasks s) /\ sum inget (tasks s') = sum inget (tasks s)
  /\ 0 <= debt s' /\ zlen (vec s') <= zlen (vec s)
  /\ GQ s'
  /\ (forall t0, waiting_pc (pcof s t0) = false -> pcof s' t0 = pcof s t0).
Proof.
  intros G Hd Hn. unfold resize_locked. sp.
  match goal with |- context [shrink_idle t ?f ?x] =>
    pose proof (shrink_idle_effect t f x) as H; set (s1 := shrink_idle t f x) in * end.
  cbv zeta in H. sp. destruct H as (H1&H2&H3&H4&H5&H6&H7&H8&H9&H10&H11&H12&H13).
  assert (G1 : GQ s1) by (apply GQ_same with s; try assumption).
  destruct (Z.ltb n (maxs s)) eqn:E1.
  - apply Z.ltb_lt in E1.
    assert (Hfree : 0 <= (if closed s1 then 0 else Z.min (permits s1) (maxs s - n))
                    <= Z.min (permits s1) (maxs s - n)).
    { pose proof (q_pnn _ G1). destruct (closed s1); lia. }
    set (free := if closed s1 then 0 else Z.min (permits s1) (maxs s - n)) in *.
    cbv zeta. sp. rewrite ?H1, ?H2, ?H4, ?H5, ?H6, ?H7, ?H8, ?H9, ?H10, ?H11 in *.
    splits; try reflexivity; try lia.
    + apply GQ_same with (set_permits s (permits s - free)); sp; try assumption; try reflexivity.
      apply GQ_permits_le; try assumption; try lia.
      intros Hq. pose proof (q_perm _ G Hq). lia.
    + intros t0 _. unfold pcof. sp. rewrite H7. reflexivity.
  - destruct (Z.ltb (maxs s) n) eqn:E2.
    + apply Z.ltb_lt in E2. apply Z.ltb_ge in E1.
      set (c := Z.min (n - maxs s) (debt s1)).
      set (s2 := set_debt s1 (debt s1 - c)).
      assert (G2 : GQ s2) by (apply GQ_same with s1; subst s2; sp; try reflexivity; exact G1).
      pose proof (sem_add_n_fields (Z.to_nat (n - maxs s - c)) s2) as (F1&F2&F3&F4&F5&F6&F7&F8&F9&F10&F11).
      pose proof (sem_add_n_sums (Z.to_nat (n - maxs s - c)) s2 G2) as (S1&S2&S3&S4&S5).
      cbv zeta. rewrite F1, F2, F3, F4, F5, F6, F7, F8, F9, F10, S2, S3, S4, S5.
      subst s2. sp. subst c. rewrite ?H1, ?H2, ?H4, ?H5, ?H6, ?H7, ?H8, ?H9, ?H10, ?H11 in *.
      splits; try reflexivity; try lia.
      * apply GQ_sem_add_n, G2.
      * intros t0 Hw. rewrite pcof_sem_add_n; [unfold pcof; sp; rewrite H7; reflexivity|exact G2|].
        unfold pcof in *. sp. rewrite H7. exact Hw.
    + apply Z.ltb_ge in E1, E2. cbv zeta. rewrite ?H1, ?H2, ?H4, ?H5, ?H6, ?H7, ?H8, ?H9, ?H10, ?H11 in *.
      splits; try reflexivity; try lia; try assumption.
      intros t0 _. unfold pcof. rewrite H7. reflexivity.
Qed.

(* ---------- retain_loop / emit helpers *)
Lemma retain_loop_effect t ds v s :
  let '(s', kept, removed) := retain_loop t ds v s in
  permits s' = permits s /\ closed s' = closed s /\ queue s' = queue s /\ vec s' = vec s
  /\ size s' = size s /\ maxs s' = maxs s /\ debt s' = debt s /\ users s' = users s
  /\ tasks s' = tasks s /\ out s' = out s /\ alive s' = alive s /\ clock s' = clock s
  /\ next_oid s' = next_oid s
  /\ zlen v = zlen kept + zlen removed.
Proof.
  revert ds s; induction v as [|o r IH]; intros ds s; cbn [retain_loop].
  - repeat split; reflexivity.
  - destruct (match ds with [] => true | d :: _ => d end).
    + match goal with |- context [retain_loop t ?d r ?x] =>
        specialize (IH d x); destruct (retain_loop t d r x) as [[s2 k2] r2] end.
      destruct IH as (H1&H2&H3&H4&H5&H6&H7&H8&H9&H10&H11&H12&H13&H14). sp.
      repeat split; try assumption. rewrite !zlen_cons. lia.
    + match goal with |- context [retain_loop t ?d r ?x] =>
        specialize (IH d x); destruct (retain_loop t d r x) as [[s2 k2] r2] end.
      destruct IH as (H1&H2&H3&H4&H5&H6&H7&H8&H9&H10&H11&H12&H13&H14). sp.
      repeat split; try assumption. rewrite !zlen_cons. lia.
Qed.

Lemma emit_removed_fields t l s :
  let s' := emit_removed t l s in
  permits s' = permits s /\ closed s' = closed s /\ queue s' = queue s /\ vec s' = vec s
  /\ size s' = size s /\ maxs s' = maxs s /\ debt s' = debt s /\ users s' = users s
  /\ tasks s' = tasks s /\ out s' = out s /\ alive s' = alive s /\ clock s' = clock s
  /\ next_oid s' = next_oid s.
Proof.
  revert s; induction l as [|o r IH]; intros s; cbn [emit_removed]; [repeat split|].
  specialize (IH (emit s (ERemoved (oid o) t))). cbv zeta in *. sp. exact IH.
Qed.

Lemma emit_destroyed_fields t l s :
  let s' := emit_destroyed t l s in
  permits s' = permits s /\ closed s' = closed s /\ queue s' = queue s /\ vec s' = vec s
  /\ size s' = size s /\ maxs s' = maxs s /\ debt s' = debt s /\ users s' = users s
  /\ tasks s' = tasks s /\ out s' = out s /\ alive s' = alive s /\ clock s' = clock s
  /\ next_oid s' = next_oid s.
Proof.
  revert s; induction l as [|o r IH]; intros s; cbn [emit_destroyed]; [repeat split|].
  specialize (IH (emit s (EDestroy (oid o) t))). cbv zeta in *. sp. exact IH.
Qed.
