(* What one step does to the tasks it is not about: nothing, except that a waiter may be
   assigned a permit. *)
From Coq Require Import List ZArith Lia Bool Arith.
From DP Require Import Common.Tab Managed.Model Managed.Contrib Managed.Simp Managed.InvQ
  Managed.Effects Managed.StepCases Managed.Frame Managed.InvG.
Import ListNotations.
Open Scope Z_scope.

Definition label_task (l : label) : option nat :=
  match l with
  | Start t _ | Step t | Env t _ | Cancel t | Fire t => Some t
  | Mark _ => None
  end.

(* t0 kept its pc or was assigned a permit *)
Definition kept (s s' : state) (t0 : nat) : Prop :=
  pcof s' t0 = pcof s t0 \/ exists g, pcof s t0 = GWait g false /\ pcof s' t0 = GWait g true.

Lemma kept_refl s t0 : kept s s t0. Proof. left. reflexivity. Qed.

Lemma kept_same s s' t0 : tasks s' = tasks s -> kept s s' t0.
Proof. intros H. left. unfold pcof. rewrite H. reflexivity. Qed.

Lemma kept_trans s1 s2 s3 t0 : kept s1 s2 t0 -> kept s2 s3 t0 -> kept s1 s3 t0.
Proof.
  intros [H1|(g&H1&H1')] [H2|(g2&H2&H2')].
  - left. congruence.
  - right. exists g2. split; congruence.
  - right. exists g. split; congruence.
  - rewrite H1' in H2. discriminate H2.
Qed.

Lemma kept_setpc s0 s t t0 p : t <> t0 -> kept s s0 t0 -> kept s (setpc s0 t p) t0.
Proof.
  intros Hne K. eapply kept_trans; [exact K|]. left. apply pcof_setpc_other. exact Hne.
Qed.

Lemma kept_sem_add s t0 : GQ s -> kept s (sem_add s) t0.
Proof.
  intros G. destruct (sem_add_cases s G) as [[Eq ->]|(w & q & g & Eq & Hw & Hp & ->)].
  - apply kept_same. reflexivity.
  - destruct (Nat.eq_dec w t0) as [->|Hne].
    + right. exists g. split; [exact Hw|]. apply pcof_setpc_same.
    + left. rewrite pcof_setpc_other by exact Hne. reflexivity.
Qed.

Lemma kept_sem_add_n n s t0 : GQ s -> kept s (sem_add_n n s) t0.
Proof.
  revert s; induction n as [|n IH]; intros s G; cbn [sem_add_n]; [apply kept_refl|].
  eapply kept_trans; [apply kept_sem_add, G|apply IH, GQ_sem_add, G].
Qed.

Lemma kept_acquire c s t g t0 : t <> t0 -> kept s (acquire c s t g) t0.
Proof.
  intros Hne. unfold acquire.
  repeat match goal with
         | |- context [match ?x with _ => _ end] => destruct x
         end; apply kept_setpc; try exact Hne; apply kept_same; reflexivity.
Qed.

Lemma kept_leave_wait s t a p t0 : GQ s -> t <> t0 -> kept s (setpc (leave_wait s t a) t p) t0.
Proof.
  intros G Hne. apply kept_setpc; [exact Hne|]. unfold leave_wait. destruct a.
  - apply kept_sem_add, G.
  - apply kept_same. reflexivity.
Qed.

Lemma kept_next_stage c s t g o st t0 : t <> t0 -> kept s (next_stage c s t g o st) t0.
Proof.
  intros Hne. unfold next_stage, enter_stage, hand_out.
  repeat match goal with
         | |- context [match ?x with _ => _ end] => destruct x
         end; apply kept_setpc; try exact Hne; apply kept_same; reflexivity.
Qed.

Lemma kept_resize s t n t0 : GQ s -> kept s (resize_locked s t n) t0.
Proof.
  intros G. unfold resize_locked. cbv zeta.
  match goal with |- context [shrink_idle t ?f ?x] =>
    pose proof (shrink_idle_effect t f x) as H; set (s1 := shrink_idle t f x) in * end.
  cbv zeta in H. sp. destruct H as (H1&H2&H3&H4&H5&H6&H7&H8&H9&H10&H11&H12&H13).
  assert (G1 : GQ s1) by (apply GQ_same with s; assumption).
  assert (K1 : kept s s1 t0) by (apply kept_same; exact H7).
  destruct (Z.ltb n (maxs s)).
  - eapply kept_trans; [exact K1|apply kept_same; reflexivity].
  - destruct (Z.ltb (maxs s) n); [|exact K1].
    eapply kept_trans; [exact K1|]. eapply kept_trans; [|apply kept_sem_add_n].
    + apply kept_same. reflexivity.
    + apply GQ_same with s1; sp; try reflexivity. exact G1.
Qed.

Lemma kept_tick s s' t0 : kept s s' t0 -> kept s (tick s') t0.
Proof. intros K. eapply kept_trans; [exact K|apply kept_same; reflexivity]. Qed.

Theorem step_others c s l s' t0 :
  GQ s -> step c s l = Some s' -> label_task l <> Some t0 -> kept s s' t0.
Proof.
  intros G H Hl.
  step_leaves H; cbn [label_task] in Hl;
    try (assert (Hne : t <> t0) by congruence);
    try apply kept_refl;
    apply kept_tick;
    cbn [enter_stage hand_out enter_postc].
  all: try apply kept_refl.
  all: try (apply kept_setpc; [exact Hne|]; apply kept_same; sp; reflexivity).
  all: try (apply kept_acquire; exact Hne).
  all: try (apply kept_setpc; [exact Hne|]; apply kept_sem_add; exact G).
  all: try (apply kept_next_stage; exact Hne).
  all: try (apply kept_leave_wait; assumption).
  - apply kept_setpc; [exact Hne|]. apply kept_same. autorewrite with fld. sp. reflexivity.
  - apply kept_setpc; [exact Hne|]. apply kept_resize, G.
  - match goal with E : retain_loop ?t ?ds (vec s) s = (?s1, ?kept0, ?rem) |- _ =>
      pose proof (retain_loop_effect t ds (vec s) s) as R; rewrite E in R;
      destruct R as (R1&R2&R3&R4&R5&R6&R7&R8&R9&R10&R11&R12&R13&R14) end.
    apply kept_setpc; [exact Hne|]. apply kept_same. autorewrite with fld. sp. assumption.
  - apply kept_setpc; [exact Hne|].
    eapply kept_trans; [|apply kept_resize].
    + apply kept_same. reflexivity.
    + destruct G as [H1 H2 H3 H4 H5]. constructor; sp; try assumption.
      * intros w [].
      * constructor.
      * intros Hq. contradiction.
      * reflexivity.
Qed.
