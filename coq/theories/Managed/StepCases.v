(* A generic case split of one model step into its leaves: after [step_leaves H] every goal
   has [H : Some X = Some s'] already inverted (s' replaced by the explicit successor) and
   the equations that select the leaf (program counter, branch conditions) in the context. *)
From Coq Require Import List ZArith Lia Bool Arith.
From DP Require Import Common.Tab Managed.Model.
Import ListNotations.
Open Scope Z_scope.

Ltac split_matches H :=
  repeat match type of H with
         | context [match ?x with _ => _ end] =>
             lazymatch x with
             | context [match _ with _ => _ end] => fail
             | _ => destruct x eqn:?
             end
         end.

Ltac step_leaves H :=
  match type of H with
  | step ?c ?s ?l = Some ?s' =>
      destruct l as [?t ?o|?t|?t ?r|?t|?t|?n]; cbn [step] in H;
      [ unfold start in H | unfold step_task in H | unfold env_task in H
      | unfold cancel_task in H | unfold fire_task in H | ];
      split_matches H; cbn [option_map negb] in H; try discriminate H;
      inversion H; subst; clear H
  end.
