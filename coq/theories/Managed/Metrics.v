(* C13: per-object metrics. *)
From Coq Require Import List ZArith Lia Bool Arith.
From DP Require Import Common.Tab Managed.Model Managed.Contrib Managed.Simp Managed.InvQ
  Managed.Effects Managed.StepCases Managed.Frame Managed.InvG Managed.InvClose Managed.Count
  Managed.Recs Managed.InvW Managed.Others Managed.All.
Import ListNotations.
Open Scope Z_scope.

Lemma clock_step c s l s' : step c s l = Some s' -> (clock s <= clock s')%nat.
Proof.
  intros H.
  step_leaves H; sp; autorewrite with fld; sp; try lia.
  all: try match goal with E : retain_loop ?t ?ds ?v ?s0 = (?s1, _, _) |- _ =>
             pose proof (retain_loop_effect t ds v s0) as R; rewrite E in R;
             destruct R as (R1&R2&R3&R4&R5&R6&R7&R8&R9&R10&R11&R12&R13&R14); sp; lia end.
Qed.

(* well-formed metrics at logical time k *)
Definition MW (k : nat) (o : obj) : Prop :=
  (recycled o = None <-> rcount o = 0%nat)
  /\ (created o <= k)%nat
  /\ (forall r, recycled o = Some r -> (created o <= r <= k)%nat).

Lemma MW_mono k k' o : (k <= k')%nat -> MW k o -> MW k' o.
Proof.
  intros Hk (H1&H2&H3). unfold MW. splits; [exact H1|lia|]. intros r Hr. specialize (H3 r Hr). lia.
Qed.

Definition MI (s : state) : Prop := forall o, In o (recs s) -> MW (clock s) o.

Lemma MI_init c : MI (init c).
Proof. intros o H. cbn in H. destruct H. Qed.

Theorem MI_step c s l s' : GQ s -> MI s -> step c s l = Some s' -> MI s'.
Proof.
  intros G M H o' Hin.
  pose proof (clock_step c s l s' H) as Hk.
  destruct (recs_step c s l s' o' G H Hin) as [K|o K E|E|o K E Ho|o K E Ho].
  - apply (MW_mono (clock s)); [exact Hk|apply M, K].
  - subst o'. apply (MW_mono (clock s)); [exact Hk|]. destruct (M o K) as (H1&H2&H3).
    unfold MW, idle_at. cbn [recycled rcount created]. splits; assumption.
  - subst o'. apply (MW_mono (clock s)); [exact Hk|]. unfold MW, new_obj. cbn [recycled rcount created].
    splits; [split; reflexivity|lia|intros r Hr; discriminate Hr].
  - subst o'. apply (MW_mono (clock s)); [exact Hk|]. destruct (M o K) as (H1&H2&H3).
    unfold MW, recycled_obj, bump. cbn [recycled rcount created].
    splits; [split; intros Hx; discriminate Hx|exact H2|intros r Hr; inversion Hr; subst; lia].
  - subst o'. apply (MW_mono (clock s)); [exact Hk|]. destruct (M o K) as (H1&H2&H3).
    unfold MW, bump. cbn [recycled rcount created]. splits; assumption.
Qed.

Lemma MI_run c tr : forall s s', Inv s -> MI s -> run c s tr = Some s' -> MI s'.
Proof.
  induction tr as [|l tr IH]; intros s s' I M H; cbn [run] in H.
  - inversion H; subst. exact M.
  - destruct (step c s l) as [s1|] eqn:E; [|discriminate].
    apply (IH s1 s'); [eapply Inv_step; eassumption| |exact H].
    eapply MI_step; [exact (inv_q _ I)|exact M|exact E].
Qed.

Theorem reachable_MI c s : Reachable c s -> MI s.
Proof. intros [tr H]. eapply MI_run; [apply Inv_init|apply MI_init|exact H]. Qed.

Definition used (o : obj) : Prop := handed o = S (rcount o).
Definition fresh (o : obj) : Prop := handed o = 0%nat /\ rcount o = 0%nat /\ recycled o = None.

Definition preq (p : pc) : Prop :=
  match p with
  | GRec _ o _ | RStart o | RLock o | RSurplus o | RDetach o | TStart o | TLock o | TAdd o | TDetach o => used o
  | GCreated _ o | GPostC _ o _ => fresh o
  | UUnready _ o _ | UDetach _ o _ => used o \/ fresh o
  | _ => True
  end.

Record LI (s : state) : Prop := {
  li_vec : forall o, In o (vec s) -> used o;
  li_out : forall o, In o (out s) -> used o;
  li_pc : forall t, preq (pcof s t)
}.

Lemma LI_init c : LI (init c).
Proof.
  constructor; cbn; try (intros o []). intros t. unfold pcof. cbn. destruct t; exact I.
Qed.

(* the program counters of the successor: the acting task's is given, all others are kept *)
Lemma li_pc_step c s l s' t :
  GQ s -> LI s -> step c s l = Some s' -> label_task l = Some t -> preq (pcof s' t) ->
  forall t0, preq (pcof s' t0).
Proof.
  intros G L H Hl Hp t0. destruct (Nat.eq_dec t t0) as [<-|Hne]; [exact Hp|].
  assert (Hl' : label_task l <> Some t0) by congruence.
  destruct (step_others c s l s' t0 G H Hl') as [E|(g&E1&E2)].
  - rewrite E. apply (li_pc _ L).
  - rewrite E2. exact I.
Qed.

Lemma used_bump_fresh o : fresh o -> used (bump o).
Proof. intros (H1&H2&H3). unfold used, bump. cbn. lia. Qed.
Lemma used_bump_recycled s o : used o -> used (bump (recycled_obj s o)).
Proof. unfold used, bump, recycled_obj. cbn. lia. Qed.
Lemma used_idle_at s o : used o -> used (idle_at s o).
Proof. unfold used, idle_at. cbn. tauto. Qed.

Lemma pcof_tick' s t : pcof (tick s) t = pcof s t. Proof. reflexivity. Qed.

Lemma preq_noobj p : pobj p = None -> preq p.
Proof. destruct p; cbn; try discriminate; auto. Qed.

Lemma pcof_acquire_noobj c s t g : pobj (pcof (acquire c s t g) t) = None.
Proof.
  destruct (acquire_tasks c s t g) as (p & Et & Hp). unfold pcof. rewrite Et, get_upd_same. exact Hp.
Qed.

Lemma next_stage_pc c s t g o st :
  (exists st', pcof (next_stage c s t g o st) t = GRec g o st') \/ pcof (next_stage c s t g o st) t = PDone ROk.
Proof.
  unfold next_stage, enter_stage, hand_out.
  repeat match goal with
         | |- context [match ?y with _ => _ end] => destruct y
         end; rewrite pcof_setpc_same; eauto.
Qed.

Theorem LI_step c s l s' : GQ s -> LI s -> step c s l = Some s' -> LI s'.
Proof.
  intros G L H. pose proof H as H0.
  step_leaves H.
  all: try exact L.
  all: (constructor; [ | | eapply (li_pc_step _ _ _ _ _ G L H0); [reflexivity|] ]).
  all: clear H0.
  all: try match goal with E : pcof _ ?t = _ |- _ => pose proof (li_pc _ L t) as Hq; rewrite E in Hq; cbn [preq] in Hq end.
  all: try (rewrite pcof_tick'; unfold enter_stage, hand_out, enter_postc; rewrite pcof_setpc_same; cbn [preq];
            first [exact I|assumption|left; assumption|right; assumption|idtac]).
  all: try (rewrite pcof_tick'; apply preq_noobj, pcof_acquire_noobj).
  all: try (sp; autorewrite with fld; sp; first [exact (li_vec _ L)|exact (li_out _ L)]).
  all: try (apply (li_out _ L); eapply find_oid_in; eassumption).
  all: try (rewrite pcof_tick'; apply (li_pc _ L)).
  all: try (unfold fresh, new_obj; cbn; auto; fail).
  all: try match goal with E : pop_idle _ (vec _) = Some _ |- _ => destruct (pop_idle_in _ _ _ _ E) as [P1 P2] end.
  all: try (apply (li_vec _ L); assumption).
  all: try (intros o' Hin; sp; autorewrite with fld in Hin; sp).
  all: try (apply (li_out _ L); eapply in_remove_oid; eassumption).
  all: try (apply (li_vec _ L); auto; fail).
  all: try (destruct Hin as [<-|Hin]; [apply used_bump_fresh; assumption|apply (li_out _ L); assumption]).
  all: try (apply in_app_or in Hin; destruct Hin as [Hin|[<-|[]]]; [apply (li_vec _ L); assumption|apply used_idle_at; assumption]).
  all: try (apply (li_vec _ L); eapply in_vec_resize; eassumption).
  all: try (destruct Hin; fail).
  - pose proof (retain_loop_in t ds (vec s) s) as K. rewrite Heqp0 in K. apply (li_vec _ L), K, Hin.
  - pose proof (retain_loop_effect t ds (vec s) s) as E. rewrite Heqp0 in E.
    destruct E as (E1&E2&E3&E4&E5&E6&E7&E8&E9&E10&E11&E12&E13&E14). rewrite E10 in Hin. apply (li_out _ L), Hin.
  - apply in_vec_resize in Hin. sp. apply (li_vec _ L), Hin.
  - destruct (next_stage_recs c s t g o st o') as [N1 _]. destruct (N1 Hin) as [K|K].
    + apply (li_out _ L), K.
    + subst o'. apply used_bump_recycled, Hq.
  - rewrite pcof_tick'. destruct (next_stage_pc c s t g o st) as [[st' E]|E]; rewrite E; cbn [preq]; [exact Hq|exact I].
Qed.

Lemma LI_run c tr : forall s s', Inv s -> LI s -> run c s tr = Some s' -> LI s'.
Proof.
  induction tr as [|l tr IH]; intros s s' I0 L H; cbn [run] in H.
  - inversion H; subst. exact L.
  - destruct (step c s l) as [s1|] eqn:E; [|discriminate].
    apply (IH s1 s'); [eapply Inv_step; eassumption| |exact H].
    eapply LI_step; [exact (inv_q _ I0)|exact L|exact E].
Qed.

Theorem reachable_LI c s : Reachable c s -> LI s.
Proof. intros [tr H]. eapply LI_run; [apply Inv_init|apply LI_init|exact H]. Qed.

(* recycle_count = hand-outs - 1 for every object that is idle or checked out *)
Theorem rcount_is_handouts_minus_one c s o :
  Reachable c s -> In o (vec s) \/ In o (out s) -> handed o = S (rcount o).
Proof.
  intros R [H|H]; [apply (li_vec _ (reachable_LI c s R)), H|apply (li_out _ (reachable_LI c s R)), H].
Qed.

Lemma li_all s o : LI s -> In o (recs s) -> used o \/ fresh o.
Proof.
  intros L H. unfold recs in H. apply in_app_or in H. destruct H as [H|H]; [left; apply (li_vec _ L), H|].
  apply in_app_or in H. destruct H as [H|H]; [left; apply (li_out _ L), H|].
  unfold trecs in H. apply in_flat_map in H. destruct H as (p & Hp & Ho).
  apply In_nth with (d := PNone) in Hp. destruct Hp as (t & _ & Ht).
  pose proof (li_pc _ L t) as Hq. unfold pcof, get in Hq. rewrite Ht in Hq.
  unfold precs in Ho. destruct p; cbn [pobj] in Ho; try (destruct Ho; fail);
    destruct Ho as [<-|[]]; cbn [preq] in Hq; tauto.
Qed.

(* how the metrics of any record can change in one step:
   - not at all (moved around, stamped idle),
   - first hand-out of a new object: nothing changes but the ghost hand-out count 0 -> 1,
   - re-hand-out: recycle_count + 1, recycled := now (not earlier than the previous stamp),
   - a new record starts with count 0 and no recycled stamp. *)
Theorem metrics_evolve c s l s' o' :
  Reachable c s -> step c s l = Some s' -> In o' (recs s') ->
  (exists o, In o (recs s) /\ oid o' = oid o /\ created o' = created o
     /\ ((rcount o' = rcount o /\ recycled o' = recycled o /\ handed o' = handed o)
         \/ (rcount o' = rcount o /\ recycled o' = recycled o /\ handed o = 0%nat /\ handed o' = 1%nat
             /\ rcount o = 0%nat /\ In o' (out s'))
         \/ (rcount o' = S (rcount o) /\ recycled o' = Some (clock s) /\ handed o' = S (handed o)
             /\ (forall r, recycled o = Some r -> (r <= clock s)%nat) /\ In o' (out s'))))
  \/ (oid o' = next_oid s /\ rcount o' = 0%nat /\ recycled o' = None /\ created o' = clock s
      /\ handed o' = 0%nat).
Proof.
  intros R H Hin. pose proof (reachable_inv c s R) as I0. pose proof (reachable_MI c s R) as M.
  pose proof (reachable_LI c s R) as L.
  pose proof (reachable_step c s l s' R H) as R'.
  pose proof (reachable_LI c s' R') as L'.
  destruct (recs_step c s l s' o' (inv_q _ I0) H Hin) as [K|o K E|E|o K E Ho|o K E Ho].
  - left. exists o'. splits; try reflexivity; [exact K|left; splits; reflexivity].
  - left. exists o. subst o'. splits; try reflexivity; [exact K|left; splits; reflexivity].
  - right. subst o'. splits; reflexivity.
  - left. exists o. subst o'. splits; try reflexivity; [exact K|]. right. right.
    splits; try reflexivity; [|exact Ho].
    intros r Hr. destruct (M o K) as (_&_&H3). specialize (H3 r Hr). lia.
  - left. exists o. subst o'. splits; try reflexivity; [exact K|]. right. left.
    pose proof (li_out _ L' _ Ho) as U. unfold used, bump in U. cbn [handed rcount] in U.
    destruct (li_all s o L K) as [Uo|(F1&F2&F3)]; [unfold used in Uo; lia|].
    cbn [bump handed rcount recycled]. splits; try reflexivity; try assumption. lia.
Qed.

(* hooks and Manager::recycle see the metrics as they were before the current hand-out: while a
   get works on an idle object the record stays what was popped; only the final hand-out bumps
   recycle_count and sets the recycled stamp *)
Theorem stage_record_const c s t g o st s' :
  pcof s t = GRec g o st -> step c s (Env t OOk) = Some s' ->
  (exists st', pcof s' t = GRec g o st' /\ out s' = out s)
  \/ (pcof s' t = PDone ROk /\ out s' = bump (recycled_obj s o) :: out s).
Proof.
  intros Hpc H. cbn [step] in H. unfold env_task in H. rewrite Hpc in H. cbn [option_map] in H.
  inversion H; subst. rewrite pcof_tick'. unfold next_stage, enter_stage, hand_out.
  repeat match goal with
         | |- context [match ?y with _ => _ end] => destruct y
         end; rewrite pcof_setpc_same; sp; eauto.
Qed.

(* every call made for an idle object (hooks, Manager::recycle) is made with exactly that
   record; the event is the one the harness logs on the implementation side *)
Lemma enter_stage_event s t g o st :
  log (enter_stage s t g o st)
  = (match st with SPre k => EHookCall 0 k o | SRecycle => ERecycleCall o t | SPost k => EHookCall 2 k o end)
    :: log s.
Proof. unfold enter_stage. sp. reflexivity. Qed.

(* retain() is shown the idle records in queue order, one ERetainSee per object, with the
   metrics the records carry (those Object::metrics reported when the object was returned) *)
Fixpoint sees (l : list event) : list obj :=
  match l with
  | [] => []
  | ERetainSee o :: r => o :: sees r
  | _ :: r => sees r
  end.

Lemma retain_loop_sees t ds v s :
  let '(s', kept, removed) := retain_loop t ds v s in
  sees (log s') = rev v ++ sees (log s).
Proof.
  revert ds s; induction v as [|o r IH]; intros ds s; cbn [retain_loop]; [reflexivity|].
  destruct (match ds with [] => true | d :: _ => d end).
  - match goal with |- context [retain_loop t ?d r ?y] =>
      specialize (IH d y); destruct (retain_loop t d r y) as [[s2 k2] r2] end.
    rewrite IH. sp. cbn [sees rev]. rewrite <- app_assoc. reflexivity.
  - match goal with |- context [retain_loop t ?d r ?y] =>
      specialize (IH d y); destruct (retain_loop t d r y) as [[s2 k2] r2] end.
    rewrite IH. sp. cbn [sees rev]. rewrite <- app_assoc. reflexivity.
Qed.

Lemma metrics_wellformed c s o : Reachable c s -> In o (recs s) ->
  (recycled o = None <-> rcount o = 0%nat)
  /\ (created o <= clock s)%nat
  /\ (forall r, recycled o = Some r -> (created o <= r <= clock s)%nat).
Proof. intros R H. exact (reachable_MI c s R o H). Qed.
