(* C09: retain(), take() and the detach discipline. *)
From Coq Require Import List ZArith Lia Bool Arith.
From DP Require Import Common.Tab Managed.Model Managed.Contrib Managed.Simp Managed.InvQ
  Managed.Effects Managed.StepCases Managed.Frame Managed.InvG Managed.InvClose Managed.Count
  Managed.InvW Managed.Others Managed.All Managed.Ops.
Import ListNotations.
Open Scope Z_scope.

(* ---- every invariant incl. the counting one, for reachable states *)
Lemma DI_run c tr : forall s s', Inv s -> DI s -> run c s tr = Some s' -> DI s'.
Proof.
  induction tr as [|l tr IH]; intros s s' I D H; cbn [run] in H.
  - inversion H; subst. exact D.
  - destruct (step c s l) as [s1|] eqn:E; [|discriminate].
    apply (IH s1 s'); [eapply Inv_step; eassumption| |exact H].
    eapply DI_step; [exact (inv_q _ I)|exact (inv_a _ I)|exact D|exact E].
Qed.

Theorem reachable_DI c s : Reachable c s -> DI s.
Proof. intros [tr H]. eapply DI_run; [apply Inv_init|apply DI_init|exact H]. Qed.

Lemma counting_law c s x : Reachable c s -> alive s = true -> cnt x s + dcount x (log s) = born x s.
Proof. intros R Ha. exact (reachable_DI c s R Ha x). Qed.

Lemma cnt_nonneg x s : 0 <= cnt x s.
Proof.
  unfold cnt. pose proof (zcount_nonneg x (vec s)). pose proof (zcount_nonneg x (out s)).
  pose proof (sum_nonneg (pcnt x) (tasks s) (pcnt_nonneg x)). lia.
Qed.

Lemma born_range x s : 0 <= born x s <= 1.
Proof. unfold born. destruct (Nat.ltb x (next_oid s)); lia. Qed.

(* Manager::detach is called at most once per object *)
Lemma detach_at_most_once c s x : Reachable c s -> alive s = true -> dcount x (log s) <= 1.
Proof.
  intros R Ha. pose proof (reachable_DI c s R Ha x). pose proof (cnt_nonneg x s).
  pose proof (born_range x s). lia.
Qed.

(* never for an object that is still with the pool (idle, checked out, or in the hands of an
   operation that has not yet let go of it) *)
Lemma owned_not_detached c s x : Reachable c s -> alive s = true -> 1 <= cnt x s ->
  dcount x (log s) = 0 /\ cnt x s = 1.
Proof.
  intros R Ha Hc. pose proof (reachable_DI c s R Ha x). pose proof (dcount_nonneg x (log s)).
  pose proof (born_range x s). lia.
Qed.

(* exactly once for every object that was created and is no longer anywhere in the pool *)
Lemma let_go_detached_once c s x : Reachable c s -> alive s = true ->
  (x < next_oid s)%nat -> cnt x s = 0 -> dcount x (log s) = 1.
Proof.
  intros R Ha Hx Hc. pose proof (reachable_DI c s R Ha x) as D. unfold born in D.
  apply Nat.ltb_lt in Hx. rewrite Hx in D. lia.
Qed.

(* no object is ever in two places (idle twice, idle and checked out, held by two operations) *)
Lemma no_duplicates c s x : Reachable c s -> alive s = true -> cnt x s <= 1.
Proof.
  intros R Ha. pose proof (reachable_DI c s R Ha x). pose proof (dcount_nonneg x (log s)).
  pose proof (born_range x s). lia.
Qed.

(* a detached object is gone for good: not idle, not checked out, in no operation's hands *)
Lemma detached_is_gone c s x : Reachable c s -> alive s = true -> dcount x (log s) = 1 ->
  zcount x (vec s) = 0 /\ zcount x (out s) = 0 /\ sum (pcnt x) (tasks s) = 0.
Proof.
  intros R Ha Hd. pose proof (reachable_DI c s R Ha x) as D. pose proof (born_range x s).
  unfold cnt in D. pose proof (zcount_nonneg x (vec s)). pose proof (zcount_nonneg x (out s)).
  pose proof (sum_nonneg (pcnt x) (tasks s) (pcnt_nonneg x)). lia.
Qed.

(* ---- retain as a function of its decisions *)
Fixpoint decisions (ds : list bool) (v : list obj) : list bool :=
  match v with
  | [] => []
  | _ :: r => match ds with [] => true | d :: _ => d end
              :: decisions (match ds with [] => [] | _ :: r' => r' end) r
  end.

Fixpoint select (b : bool) (bs : list bool) (v : list obj) : list obj :=
  match v, bs with
  | o :: r, d :: bs' => if Bool.eqb d b then o :: select b bs' r else select b bs' r
  | _, _ => []
  end.

Lemma retain_loop_select t ds v s :
  let '(s', kept, removed) := retain_loop t ds v s in
  kept = select true (decisions ds v) v /\ removed = select false (decisions ds v) v.
Proof.
  revert ds s; induction v as [|o r IH]; intros ds s; cbn [retain_loop decisions select]; [split; reflexivity|].
  destruct (match ds with [] => true | d :: _ => d end) eqn:Ed.
  - match goal with |- context [retain_loop t ?d r ?y] =>
      specialize (IH d y); destruct (retain_loop t d r y) as [[s2 k2] r2] end.
    destruct IH as [I1 I2]. cbn [Bool.eqb]. split; congruence.
  - match goal with |- context [retain_loop t ?d r ?y] =>
      specialize (IH d y); destruct (retain_loop t d r y) as [[s2 k2] r2] end.
    destruct IH as [I1 I2]. cbn [Bool.eqb]. split; congruence.
Qed.

(* retain(): exactly the idle objects whose decision is false are removed (order kept), the
   count of retained ones is accurate, size shrinks by the removed ones, and neither the
   checked-out objects nor the capacity (permits, max_size, debt) are touched *)
Lemma retain_spec c s t ds :
  pcof s t = ORetainL ds ->
  exists s', step c s (Step t) = Some s'
    /\ vec s' = select true (decisions ds (vec s)) (vec s)
    /\ size s' = size s - zlen (select false (decisions ds (vec s)) (vec s))
    /\ out s' = out s /\ permits s' = permits s /\ maxs s' = maxs s /\ debt s' = debt s
    /\ users s' = users s /\ queue s' = queue s.
Proof.
  intros Hpc. cbn [step]. unfold step_task. rewrite Hpc.
  pose proof (retain_loop_effect t ds (vec s) s) as E.
  pose proof (retain_loop_select t ds (vec s) s) as S.
  destruct (retain_loop t ds (vec s) s) as [[s1 kept] removed].
  destruct E as (E1&E2&E3&E4&E5&E6&E7&E8&E9&E10&E11&E12&E13&E14). destruct S as [S1 S2].
  cbn [option_map]. eexists. split; [reflexivity|]. sp. autorewrite with fld. sp.
  subst kept removed. rewrite ?E1, ?E3, ?E5, ?E6, ?E7, ?E8, ?E10.
  splits; reflexivity.
Qed.

(* ---- take *)
Lemma take_chain c s t o :
  pcof s t = TStart o -> alive s = true ->
  exists s', run c s [Step t; Step t; Step t; Step t] = Some s'
    /\ pcof s' t = PDone RUnit
    /\ log s' = ERemoved (oid o) t :: EDetach (oid o) t :: log s
    /\ size s' = size s - 1 /\ users s' = users s - 1
    /\ vec s' = vec s /\ out s' = out s /\ maxs s' = maxs s /\ debt s' = debt s.
Proof.
  intros Hpc Ha.
  assert (E1 : exists s1, step c s (Step t) = Some s1 /\ pcof s1 t = TLock o /\ log s1 = log s
            /\ size s1 = size s /\ users s1 = users s - 1 /\ vec s1 = vec s /\ out s1 = out s
            /\ maxs s1 = maxs s /\ debt s1 = debt s).
  { cbn [step]. unfold step_task. rewrite Hpc, Ha. cbn [option_map]. eexists. split; [reflexivity|].
    rewrite pcof_tick, pcof_setpc_same. sp. splits; reflexivity. }
  destruct E1 as (s1&X1&P1&L1&Z1&U1&V1&O1&M1&D1).
  assert (E2 : exists s2, step c s1 (Step t) = Some s2 /\ pcof s2 t = TAdd o /\ log s2 = log s1
            /\ size s2 = size s1 - 1 /\ users s2 = users s1 /\ vec s2 = vec s1 /\ out s2 = out s1
            /\ maxs s2 = maxs s1 /\ debt s2 = debt s1).
  { cbn [step]. unfold step_task. rewrite P1. cbn [option_map]. eexists. split; [reflexivity|].
    rewrite pcof_tick, pcof_setpc_same. sp. splits; reflexivity. }
  destruct E2 as (s2&X2&P2&L2&Z2&U2&V2&O2&M2&D2).
  assert (E3 : exists s3, step c s2 (Step t) = Some s3 /\ pcof s3 t = TDetach o /\ log s3 = log s2
            /\ size s3 = size s2 /\ users s3 = users s2 /\ vec s3 = vec s2 /\ out s3 = out s2
            /\ maxs s3 = maxs s2 /\ debt s3 = debt s2).
  { cbn [step]. unfold step_task. rewrite P2. cbn [option_map]. eexists. split; [reflexivity|].
    rewrite pcof_tick, pcof_setpc_same. sp. autorewrite with fld. splits; reflexivity. }
  destruct E3 as (s3&X3&P3&L3&Z3&U3&V3&O3&M3&D3).
  assert (E4 : exists s4, step c s3 (Step t) = Some s4 /\ pcof s4 t = PDone RUnit
            /\ log s4 = ERemoved (oid o) t :: EDetach (oid o) t :: log s3
            /\ size s4 = size s3 /\ users s4 = users s3 /\ vec s4 = vec s3 /\ out s4 = out s3
            /\ maxs s4 = maxs s3 /\ debt s4 = debt s3).
  { cbn [step]. unfold step_task. rewrite P3. cbn [option_map]. eexists. split; [reflexivity|].
    rewrite pcof_tick, pcof_setpc_same. sp. splits; reflexivity. }
  destruct E4 as (s4&X4&P4&L4&Z4&U4&V4&O4&M4&D4).
  exists s4. cbn [run]. rewrite X1, X2, X3, X4. splits; try reflexivity; try congruence; lia.
Qed.
