(* C03: what abandoning a get leaves behind. *)
From Coq Require Import List ZArith Lia Bool Arith.
From DP Require Import Common.Tab Managed.Model Managed.Contrib Managed.Simp Managed.InvQ
  Managed.Effects Managed.StepCases Managed.Frame Managed.InvG Managed.InvClose Managed.InvW
  Managed.Others Managed.All Managed.Ops Managed.Ops2.
Import ListNotations.
Open Scope Z_scope.

(* a finished call contributes to no counter: the conservation laws read as if its task
   did not exist *)
Lemma done_contributes_nothing c s t r :
  Reachable c s -> alive s = true -> pcof s t = PDone r ->
  let others := upd PNone t PNone (tasks s) in
  permits s + sum hp others + zlen (out s) = maxs s + debt s
  /\ size s = zlen (vec s) + zlen (out s) + sum cs others
  /\ users s = sum up others + zlen (out s)
  /\ ~ In t (queue s).
Proof.
  intros R Ha Hpc. destruct (reachable_inv c s R) as [Q A K W]. cbv zeta.
  rewrite !(sum_upd PNone) by reflexivity. unfold pcof in Hpc. rewrite Hpc. cbn [hp cs up].
  pose proof (a_perm _ A Ha). pose proof (a_size _ A Ha). pose proof (a_users _ A Ha).
  splits; try lia.
  apply (not_waiting_not_queued s t Q). unfold pcof. rewrite Hpc. reflexivity.
Qed.

(* the four steps of the undo chain, one by one *)
Definition same_slots (s s' : state) : Prop :=
  vec s' = vec s /\ out s' = out s /\ maxs s' = maxs s /\ debt s' = debt s.

Lemma chain_unready c s t g o k :
  pcof s t = UUnready g o k ->
  exists s', step c s (Step t) = Some s' /\ pcof s' t = UDetach g o k
    /\ log s' = log s /\ size s' = size s - 1 /\ users s' = users s /\ same_slots s s'.
Proof.
  intros Hpc. cbn [step]. unfold step_task. rewrite Hpc. cbn [option_map].
  eexists. split; [reflexivity|]. rewrite pcof_tick, pcof_setpc_same. unfold same_slots. sp.
  splits; reflexivity.
Qed.

Lemma chain_detach c s t g o r :
  pcof s t = UDetach g o (CRes r) ->
  exists s', step c s (Step t) = Some s' /\ pcof s' t = UPermit r
    /\ log s' = EDestroy (oid o) t :: EDetach (oid o) t :: log s
    /\ size s' = size s /\ users s' = users s /\ same_slots s s'.
Proof.
  intros Hpc. cbn [step]. unfold step_task. rewrite Hpc. cbn [option_map].
  eexists. split; [reflexivity|]. rewrite pcof_tick, pcof_setpc_same. unfold same_slots. sp.
  splits; reflexivity.
Qed.

Lemma chain_permit c s t r :
  pcof s t = UPermit r ->
  exists s', step c s (Step t) = Some s' /\ pcof s' t = UUsers r
    /\ log s' = log s /\ size s' = size s /\ users s' = users s /\ same_slots s s'.
Proof.
  intros Hpc. cbn [step]. unfold step_task. rewrite Hpc. cbn [option_map].
  eexists. split; [reflexivity|]. rewrite pcof_tick, pcof_setpc_same. unfold same_slots. sp.
  autorewrite with fld. splits; reflexivity.
Qed.

Lemma chain_users c s t r :
  pcof s t = UUsers r ->
  exists s', step c s (Step t) = Some s' /\ pcof s' t = PDone r
    /\ log s' = log s /\ size s' = size s /\ users s' = users s - 1 /\ same_slots s s'.
Proof.
  intros Hpc. cbn [step]. unfold step_task. rewrite Hpc. cbn [option_map].
  eexists. split; [reflexivity|]. rewrite pcof_tick, pcof_setpc_same. unfold same_slots. sp.
  splits; reflexivity.
Qed.

(* the object in hand when a get is abandoned (or rejected for good) is discarded:
   running the undo chain alone detaches and destroys it exactly once, gives the slot and the
   users count back, and touches neither the idle queue nor the objects handed out *)
Lemma discard_chain c s t g o r :
  pcof s t = UUnready g o (CRes r) ->
  exists s', run c s [Step t; Step t; Step t; Step t] = Some s'
    /\ pcof s' t = PDone r
    /\ log s' = EDestroy (oid o) t :: EDetach (oid o) t :: log s
    /\ size s' = size s - 1 /\ users s' = users s - 1 /\ same_slots s s'.
Proof.
  intros Hpc.
  destruct (chain_unready c s t g o (CRes r) Hpc) as (s1&E1&P1&L1&Z1&U1&F1).
  destruct (chain_detach c s1 t g o r P1) as (s2&E2&P2&L2&Z2&U2&F2).
  destruct (chain_permit c s2 t r P2) as (s3&E3&P3&L3&Z3&U3&F3).
  destruct (chain_users c s3 t r P3) as (s4&E4&P4&L4&Z4&U4&F4).
  exists s4. cbn [run]. rewrite E1, E2, E3, E4.
  unfold same_slots in *.
  destruct F1 as (A1&B1&C1&D1). destruct F2 as (A2&B2&C2&D2).
  destruct F3 as (A3&B3&C3&D3). destruct F4 as (A4&B4&C4&D4).
  splits; try reflexivity; try assumption; try congruence; try lia.
Qed.

(* what a get that does not end in Ok may do to the objects in callers' hands: nothing *)
Lemma out_only_by_handout c s l s' :
  step c s l = Some s' ->
  out s' = out s
  \/ (exists t o, l <> Start t (OpDrop (oid o)) /\ out s' = o :: out s /\ pcof s' t = PDone ROk)
  \/ (exists t x, l = Start t (OpDrop x) \/ l = Start t (OpTake x)).
Proof.
  intros H.
  step_leaves H; sp; autorewrite with fld; sp;
    try (left; reflexivity);
    try (right; right; eexists; eexists; first [left; reflexivity|right; reflexivity]).
  all: try match goal with E : retain_loop ?t ?ds ?v ?s0 = (?s1, _, _) |- _ =>
             pose proof (retain_loop_effect t ds v s0) as R; rewrite E in R;
             destruct R as (R1&R2&R3&R4&R5&R6&R7&R8&R9&R10&R11&R12&R13&R14); left; assumption end.
  all: try (right; left; eexists; eexists; split; [discriminate|split; [reflexivity|]];
            rewrite pcof_tick; unfold hand_out; apply pcof_setpc_same).
  (* next_stage: either another gate or the hand-out *)
  unfold next_stage.
  repeat match goal with
         | |- context [if ?b then _ else _] => destruct b
         | |- context [match post ?cc with _ => _ end] => destruct (post cc)
         | |- context [match ?st with SPre _ => _ | _ => _ end] => destruct st
         end; sp; try (left; reflexivity);
    right; left; eexists; eexists; (split; [discriminate|split; [reflexivity|]]);
    rewrite pcof_tick; unfold hand_out; apply pcof_setpc_same.
Qed.
