(* The object records (with their Metrics) the pool knows, and where each record of the
   successor state comes from: unchanged, stamped idle, freshly created, or re-handed-out
   (recycle_count + 1, recycled := now). Metrics change in no other way. *)
From Coq Require Import List ZArith Lia Bool Arith.
From DP Require Import Common.Tab Managed.Model Managed.Contrib Managed.Simp Managed.InvQ
  Managed.Effects Managed.StepCases Managed.Frame Managed.InvG Managed.InvClose Managed.Count.
Import ListNotations.
Open Scope Z_scope.

Definition precs (p : pc) : list obj := match pobj p with Some o => [o] | None => [] end.
Definition trecs (l : list pc) : list obj := flat_map precs l.
Definition recs (s : state) : list obj := vec s ++ out s ++ trecs (tasks s).

Lemma in_trecs_upd o t p l : In o (trecs (upd PNone t p l)) -> In o (precs p) \/ In o (trecs l).
Proof.
  unfold trecs. revert l; induction t as [|t IH]; intros [|y l]; cbn [upd flat_map]; rewrite ?in_app_iff.
  - cbn. tauto.
  - tauto.
  - cbn [precs pobj app]. intros H. destruct (IH [] H) as [H1|H1]; [left; exact H1|right; exact H1].
  - intros [H|H]; [right; left; exact H|]. destruct (IH l H) as [H1|H1]; [left; exact H1|right; right; exact H1].
Qed.

Lemma in_trecs_get o t l : In o (precs (get PNone t l)) -> In o (trecs l).
Proof.
  unfold trecs, get. revert l; induction t as [|t IH]; intros [|y l]; cbn [nth flat_map]; try (cbn; tauto);
    rewrite in_app_iff.
  - tauto.
  - intros H. right. apply IH, H.
Qed.

Lemma in_trecs_sem_add s o : GQ s -> In o (trecs (tasks (sem_add s))) -> In o (trecs (tasks s)).
Proof.
  intros G. destruct (sem_add_cases s G) as [[Eq ->]|(w & q & g & Eq & Hpw & Hp & ->)]; [tauto|].
  unfold setpc. sp. intros H. apply in_trecs_upd in H. destruct H as [H|H]; [destruct H|exact H].
Qed.

Lemma in_trecs_sem_add_n n s o : GQ s -> In o (trecs (tasks (sem_add_n n s))) -> In o (trecs (tasks s)).
Proof.
  revert s; induction n as [|n IH]; intros s G; cbn [sem_add_n]; [tauto|].
  intros H. apply (in_trecs_sem_add s o G). apply IH; [apply GQ_sem_add, G|exact H].
Qed.

Lemma in_remove_oid o x l : In o (remove_oid x l) -> In o l.
Proof.
  induction l as [|y l IH]; cbn [remove_oid]; [tauto|].
  destruct (Nat.eqb x (oid y)); cbn [In]; tauto.
Qed.

Lemma find_oid_in x l o : find_oid x l = Some o -> In o l.
Proof.
  induction l as [|y l IH]; cbn [find_oid]; [discriminate|].
  destruct (Nat.eqb x (oid y)); intros H; [inversion H; left; reflexivity|right; apply IH, H].
Qed.

Lemma pop_idle_in c v o r : pop_idle c v = Some (o, r) -> In o v /\ (forall y, In y r -> In y v).
Proof.
  unfold pop_idle. destruct (lifo c).
  - destruct (rev v) as [|y l] eqn:E; [discriminate|]. intros H. inversion H; subst.
    split.
    + apply in_rev. rewrite E. left. reflexivity.
    + intros z Hz. apply in_rev. rewrite E. right. apply in_rev in Hz. exact Hz.
  - destruct v as [|y l]; [discriminate|]. intros H. inversion H; subst.
    split; [left; reflexivity|intros z Hz; right; exact Hz].
Qed.

Lemma shrink_idle_in t fuel s o : In o (vec (shrink_idle t fuel s)) -> In o (vec s).
Proof.
  destruct (shrink_idle_vec t fuel s) as [k Hk]. rewrite Hk. apply skipn_In_aux.
Abort.
