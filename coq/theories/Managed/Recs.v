(* The object records (with their Metrics) the pool knows, and where each record of the
   successor state comes from: unchanged, stamped idle, freshly created, or re-handed-out
   (recycle_count + 1, recycled := now). Metrics change in no other way. *)
From Coq Require Import List ZArith Lia Bool Arith.
From DP Require Import Common.Tab Managed.Model Managed.Contrib Managed.Simp Managed.InvQ
  Managed.Effects Managed.StepCases Managed.Frame Managed.InvG Managed.InvClose Managed.Count.
Import ListNotations.
Open Scope Z_scope.

Definition precs (p : pc) : list obj := match pobj p with Some o => [o] | None => [] end.
Definition trecs (l : list pc) : list obj := flat_map precs l.
Definition recs (s : state) : list obj := vec s ++ out s ++ trecs (tasks s).

Lemma in_trecs_upd o t p l : In o (trecs (upd PNone t p l)) -> In o (precs p) \/ In o (trecs l).
Proof.
  unfold trecs. revert l; induction t as [|t IH]; intros [|y l]; cbn [upd flat_map]; rewrite ?in_app_iff.
  - cbn. tauto.
  - tauto.
  - cbn [precs pobj]. intros [H|H]; [destruct H|].
    destruct (IH [] H) as [H1|H1]; [left; exact H1|right; exact H1].
  - intros [H|H]; [right; left; exact H|]. destruct (IH l H) as [H1|H1]; [left; exact H1|right; right; exact H1].
Qed.

Lemma in_trecs_get o t l : In o (precs (get PNone t l)) -> In o (trecs l).
Proof.
  unfold trecs, get. revert l; induction t as [|t IH]; intros [|y l]; cbn [nth flat_map]; try (cbn; tauto);
    rewrite in_app_iff.
  - tauto.
  - intros H. right. apply IH, H.
Qed.

Lemma in_trecs_sem_add s o : GQ s -> In o (trecs (tasks (sem_add s))) -> In o (trecs (tasks s)).
Proof.
  intros G. destruct (sem_add_cases s G) as [[Eq ->]|(w & q & g & Eq & Hpw & Hp & ->)]; [tauto|].
  unfold setpc. sp. intros H. apply in_trecs_upd in H. destruct H as [H|H]; [destruct H|exact H].
Qed.

Lemma in_trecs_sem_add_n n s o : GQ s -> In o (trecs (tasks (sem_add_n n s))) -> In o (trecs (tasks s)).
Proof.
  revert s; induction n as [|n IH]; intros s G; cbn [sem_add_n]; [tauto|].
  intros H. apply (in_trecs_sem_add s o G). apply IH; [apply GQ_sem_add, G|exact H].
Qed.

Lemma in_remove_oid o x l : In o (remove_oid x l) -> In o l.
Proof.
  induction l as [|y l IH]; cbn [remove_oid]; [tauto|].
  destruct (Nat.eqb x (oid y)); cbn [In]; tauto.
Qed.

Lemma find_oid_in x l o : find_oid x l = Some o -> In o l.
Proof.
  induction l as [|y l IH]; cbn [find_oid]; [discriminate|].
  destruct (Nat.eqb x (oid y)); intros H; [inversion H; left; reflexivity|right; apply IH, H].
Qed.

Lemma pop_idle_in c v o r : pop_idle c v = Some (o, r) -> In o v /\ (forall y, In y r -> In y v).
Proof.
  unfold pop_idle. destruct (lifo c).
  - destruct (rev v) as [|y l] eqn:E; [discriminate|]. intros H. inversion H; subst.
    split.
    + apply in_rev. rewrite E. left. reflexivity.
    + intros z Hz. apply in_rev. rewrite E. right. apply in_rev in Hz. exact Hz.
  - destruct v as [|y l]; [discriminate|]. intros H. inversion H; subst.
    split; [left; reflexivity|intros z Hz; right; exact Hz].
Qed.

Lemma in_skipn {A} (x : A) k l : In x (skipn k l) -> In x l.
Proof.
  revert l; induction k as [|k IH]; intros [|y l]; cbn [skipn]; try tauto.
  intros H. right. apply IH, H.
Qed.

Lemma shrink_idle_in t fuel s o : In o (vec (shrink_idle t fuel s)) -> In o (vec s).
Proof. destruct (shrink_idle_vec t fuel s) as [k Hk]. rewrite Hk. apply in_skipn. Qed.

Lemma retain_loop_in t ds v s :
  let '(s', kept, removed) := retain_loop t ds v s in forall o, In o kept -> In o v.
Proof.
  revert ds s; induction v as [|y r IH]; intros ds s; cbn [retain_loop]; [tauto|].
  destruct (match ds with [] => true | d :: _ => d end).
  - match goal with |- context [retain_loop t ?d r ?z] =>
      specialize (IH d z); destruct (retain_loop t d r z) as [[s2 k2] r2] end.
    intros o [H|H]; [left; exact H|right; apply IH, H].
  - match goal with |- context [retain_loop t ?d r ?z] =>
      specialize (IH d z); destruct (retain_loop t d r z) as [[s2 k2] r2] end.
    intros o H. right. apply IH, H.
Qed.

(* where a record of the successor state comes from *)
Inductive origin (s s' : state) (o' : obj) : Prop :=
| OSame : In o' (recs s) -> origin s s' o'
| OIdle : forall o, In o (recs s) -> o' = idle_at s o -> origin s s' o'
| ONew : o' = new_obj s -> origin s s' o'
| OReused : forall o, In o (recs s) -> o' = bump (recycled_obj s o) -> In o' (out s') -> origin s s' o'
| OFirst : forall o, In o (recs s) -> o' = bump o -> In o' (out s') -> origin s s' o'.

Lemma in_recs_vec s o : In o (vec s) -> In o (recs s).
Proof. intros H. unfold recs. apply in_or_app. left. exact H. Qed.
Lemma in_recs_out s o : In o (out s) -> In o (recs s).
Proof. intros H. unfold recs. apply in_or_app. right. apply in_or_app. left. exact H. Qed.
Lemma in_recs_tasks s o : In o (trecs (tasks s)) -> In o (recs s).
Proof. intros H. unfold recs. apply in_or_app. right. apply in_or_app. right. exact H. Qed.
Lemma in_recs_pc s t o : pobj (pcof s t) = Some o -> In o (recs s).
Proof.
  intros H. apply in_recs_tasks. apply (in_trecs_get o t). unfold pcof in H. unfold precs. rewrite H.
  left. reflexivity.
Qed.

Lemma in_trecs_acquire c s t g o : In o (trecs (tasks (acquire c s t g))) -> In o (trecs (tasks s)).
Proof.
  destruct (acquire_tasks c s t g) as (p & Et & Hp). rewrite Et. intros H.
  apply in_trecs_upd in H. destruct H as [H|H]; [|exact H]. unfold precs in H. rewrite Hp in H. destruct H.
Qed.

Lemma in_trecs_leave_wait s t a o : GQ s -> In o (trecs (tasks (leave_wait s t a))) -> In o (trecs (tasks s)).
Proof. intros G. unfold leave_wait. destruct a; [apply in_trecs_sem_add, G|tauto]. Qed.

Lemma in_trecs_resize s t n o : GQ s -> In o (trecs (tasks (resize_locked s t n))) -> In o (trecs (tasks s)).
Proof.
  intros G. unfold resize_locked. cbv zeta.
  match goal with |- context [shrink_idle t ?f ?y] =>
    pose proof (shrink_idle_effect t f y) as H; set (s1 := shrink_idle t f y) in * end.
  cbv zeta in H. sp. destruct H as (H1&H2&H3&H4&H5&H6&H7&H8&H9&H10&H11&H12&H13).
  assert (G1 : GQ s1) by (apply GQ_same with s; assumption).
  destruct (Z.ltb n (maxs s)); [sp; rewrite H7; tauto|].
  destruct (Z.ltb (maxs s) n); [|rewrite H7; tauto].
  intros K. apply in_trecs_sem_add_n in K.
  - sp. rewrite H7 in K. exact K.
  - apply GQ_same with s1; sp; try reflexivity. exact G1.
Qed.

Lemma in_vec_resize s t n o : In o (vec (resize_locked s t n)) -> In o (vec s).
Proof.
  unfold resize_locked. cbv zeta.
  match goal with |- context [shrink_idle t ?f ?y] =>
    pose proof (shrink_idle_in t f y o) as K; set (s1 := shrink_idle t f y) in * end.
  sp.
  destruct (Z.ltb n (maxs s)); [sp; exact K|].
  destruct (Z.ltb (maxs s) n); [|exact K].
  match goal with |- context [sem_add_n ?k ?y] =>
    pose proof (sem_add_n_fields k y) as (F1&_) end.
  rewrite F1. sp. exact K.
Qed.

Lemma next_stage_recs c s t g o st o' :
  (In o' (out (next_stage c s t g o st)) -> In o' (out s) \/ o' = bump (recycled_obj s o))
  /\ (In o' (trecs (tasks (next_stage c s t g o st))) -> o' = o \/ In o' (trecs (tasks s))).
Proof.
  unfold next_stage, enter_stage, hand_out.
  repeat match goal with
         | |- context [match ?y with _ => _ end] => destruct y
         end; sp; split; intros H;
    try (left; exact H);
    try (destruct H as [<-|H]; [right; reflexivity|left; exact H]);
    try (apply in_trecs_upd in H; destruct H as [H|H]; [|right; exact H];
         cbn [precs pobj] in H; first [contradiction|destruct H as [<-|[]]; left; reflexivity]).
Qed.

(* split membership in recs s' into vec / out / the acting task / the other tasks *)
Ltac split_in H :=
  unfold recs in H; sp; autorewrite with fld in H; sp;
  repeat (apply in_app_or in H; destruct H as [H|H]).

Ltac same_vec := apply OSame, in_recs_vec; assumption.
Ltac same_out := apply OSame, in_recs_out; assumption.
Ltac same_tasks := apply OSame, in_recs_tasks; assumption.

Theorem recs_step c s l s' o' : GQ s -> step c s l = Some s' -> In o' (recs s') -> origin s s' o'.
Proof.
  intros G H Hin.
  step_leaves H; split_in Hin;
    try same_vec; try same_out;
    try (apply in_trecs_upd in Hin; destruct Hin as [Hin|Hin]; [|same_tasks]);
    try (cbn [precs pobj] in Hin; first [contradiction|destruct Hin as [<-|[]]]).
  all: try (apply OSame; eapply in_recs_pc; match goal with E : pcof _ _ = _ |- _ => rewrite E; reflexivity end).
  all: try (eapply OIdle; [eapply in_recs_pc; match goal with E : pcof _ _ = _ |- _ => rewrite E; reflexivity end|reflexivity]).
  all: try (apply OSame, in_recs_out; eapply in_remove_oid; eassumption).
  all: try (apply OSame, in_recs_out; eapply find_oid_in; eassumption).
  all: try (apply ONew; reflexivity).
  all: try match goal with E : pop_idle _ (vec _) = Some _ |- _ => destruct (pop_idle_in _ _ _ _ E) as [P1 P2] end.
  all: try (apply OSame, in_recs_vec; auto; fail).
  (* acquire *)
  all: try (apply OSame, in_recs_tasks; eapply in_trecs_acquire; eassumption).
  (* Mark *)
  all: try (apply OSame; exact Hin).
  (* stutter *)
  all: try same_tasks.
  (* hand-out of a new object *)
  all: try (destruct Hin as [<-|Hin]; [|same_out];
            eapply OFirst; [eapply in_recs_pc; match goal with E : pcof _ _ = _ |- _ => rewrite E; reflexivity end
                           |reflexivity|sp; left; reflexivity]).
  (* sem_add *)
  all: try (apply in_trecs_upd in Hin; destruct Hin as [Hin|Hin];
            [cbn [precs pobj] in Hin; first [contradiction|destruct Hin as [<-|[]]];
             apply OSame; eapply in_recs_pc; match goal with E : pcof _ _ = _ |- _ => rewrite E; reflexivity end
            |apply OSame, in_recs_tasks; first [eapply in_trecs_sem_add; eassumption
                                              |eapply in_trecs_leave_wait; eassumption
                                              |eapply in_trecs_resize; eassumption]]).
  all: try (apply OSame, in_recs_vec; eapply in_vec_resize; eassumption).
  - (* retain: kept objects *)
    pose proof (retain_loop_in t ds (vec s) s) as K. rewrite Heqp0 in K.
    apply OSame, in_recs_vec, K, Hin.
  - pose proof (retain_loop_effect t ds (vec s) s) as E. rewrite Heqp0 in E.
    destruct E as (E1&E2&E3&E4&E5&E6&E7&E8&E9&E10&E11&E12&E13&E14). rewrite E10 in Hin. same_out.
  - pose proof (retain_loop_effect t ds (vec s) s) as E. rewrite Heqp0 in E.
    destruct E as (E1&E2&E3&E4&E5&E6&E7&E8&E9&E10&E11&E12&E13&E14). rewrite E9 in Hin.
    apply in_trecs_upd in Hin. destruct Hin as [Hin|Hin]; [destruct Hin|same_tasks].
  - (* close *)
    apply in_vec_resize in Hin. sp. same_vec.
  - apply in_trecs_upd in Hin. destruct Hin as [Hin|Hin]; [destruct Hin|].
    apply in_trecs_resize in Hin; [sp; same_tasks|].
    destruct G as [H1 H2 H3 H4 H5]. constructor; sp; try assumption.
    + intros w [].
    + constructor.
    + intros Hq. contradiction.
    + reflexivity.
  - (* next stage: the hand-out of a recycled object *)
    destruct (next_stage_recs c s t g o st o') as [N1 N2]. destruct (N1 Hin) as [K|K]; [same_out|].
    eapply OReused; [eapply in_recs_pc; rewrite Heqp; reflexivity|exact K|sp; exact Hin].
  - destruct (next_stage_recs c s t g o st o') as [N1 N2]. destruct (N2 Hin) as [K|K].
    + subst o'. apply OSame. eapply in_recs_pc. rewrite Heqp. reflexivity.
    + same_tasks.
Qed.
