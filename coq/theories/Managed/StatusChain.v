(* status() without resize / close: the full chain 0 <= available <= size <= max_size = the
   configured limit, at every schedule point of every history (not only at rest). *)
From Coq Require Import List ZArith Bool Lia.
From DP Require Import Common.Tab Managed.Model Managed.Contrib Managed.All Managed.Ops Managed.Ops2
  Managed.Simp Managed.InvQ Managed.Effects Managed.InvG Managed.Thms Managed.InvCore Managed.Reach.
Import ListNotations.
Open Scope Z_scope.

Lemma status_chain c tr s m z a w :
  run c (init c) tr = Some s -> no_rc tr = true -> alive s = true ->
  status_event s = EStatus m z a w ->
  m = Z.of_nat (max0 c) /\ 0 <= a /\ a <= z /\ z <= m /\ 0 <= w /\ w <= sum inget (tasks s).
Proof.
  intros H Hn Ha Hs.
  assert (R : Reachable c s) by (exists tr; exact H).
  destruct (t_status_plausible c s m z a w R Ha Hs) as (Hm & Hz & Hav & Haz & Hw & Hm0 & Hz0).
  pose proof (c01_size c tr s H Hn Ha) as Hsz.
  pose proof (CI_run c tr _ _ (GQ_init c) (GA_init c) (CI_init c) Hn H) as C.
  pose proof (ci_maxs _ _ C) as Hmx.
  assert (Ez : z = size s) by (unfold status_event in Hs; inversion Hs; reflexivity).
  lia.
Qed.
