(* Unconditional frame facts: which fields the composite helpers never touch.
   Collected in the rewrite database [fld]. *)
From Coq Require Import List ZArith Lia Bool Arith.
From DP Require Import Common.Tab Managed.Model Managed.Contrib Managed.Simp Managed.InvQ
  Managed.Effects.
Import ListNotations.
Open Scope Z_scope.

Ltac acq_field :=
  intros; unfold acquire;
  repeat match goal with
         | |- context [match ?x with _ => _ end] => destruct x eqn:?
         end; sp; first [reflexivity|congruence].

Lemma acquire_closed c s t g : closed (acquire c s t g) = closed s. Proof. acq_field. Qed.
Lemma acquire_vec c s t g : vec (acquire c s t g) = vec s. Proof. acq_field. Qed.
Lemma acquire_size c s t g : size (acquire c s t g) = size s. Proof. acq_field. Qed.
Lemma acquire_maxs c s t g : maxs (acquire c s t g) = maxs s. Proof. acq_field. Qed.
Lemma acquire_debt c s t g : debt (acquire c s t g) = debt s. Proof. acq_field. Qed.
Lemma acquire_users c s t g : users (acquire c s t g) = users s. Proof. acq_field. Qed.
Lemma acquire_out c s t g : out (acquire c s t g) = out s. Proof. acq_field. Qed.
Lemma acquire_alive c s t g : alive (acquire c s t g) = alive s. Proof. acq_field. Qed.
Lemma acquire_clock c s t g : clock (acquire c s t g) = clock s. Proof. acq_field. Qed.
Lemma acquire_next_oid c s t g : next_oid (acquire c s t g) = next_oid s. Proof. acq_field. Qed.
Lemma acquire_log c s t g : log (acquire c s t g) = log s. Proof. acq_field. Qed.

Ltac ns_field :=
  intros; unfold next_stage, enter_stage, hand_out;
  repeat match goal with
         | |- context [match ?x with _ => _ end] => destruct x eqn:?
         end; sp; first [reflexivity|congruence].

Lemma next_stage_permits c s t g o st : permits (next_stage c s t g o st) = permits s. Proof. ns_field. Qed.
Lemma next_stage_closed c s t g o st : closed (next_stage c s t g o st) = closed s. Proof. ns_field. Qed.
Lemma next_stage_queue c s t g o st : queue (next_stage c s t g o st) = queue s. Proof. ns_field. Qed.
Lemma next_stage_vec c s t g o st : vec (next_stage c s t g o st) = vec s. Proof. ns_field. Qed.
Lemma next_stage_size c s t g o st : size (next_stage c s t g o st) = size s. Proof. ns_field. Qed.
Lemma next_stage_maxs c s t g o st : maxs (next_stage c s t g o st) = maxs s. Proof. ns_field. Qed.
Lemma next_stage_debt c s t g o st : debt (next_stage c s t g o st) = debt s. Proof. ns_field. Qed.
Lemma next_stage_users c s t g o st : users (next_stage c s t g o st) = users s. Proof. ns_field. Qed.
Lemma next_stage_alive c s t g o st : alive (next_stage c s t g o st) = alive s. Proof. ns_field. Qed.
Lemma next_stage_clock c s t g o st : clock (next_stage c s t g o st) = clock s. Proof. ns_field. Qed.
Lemma next_stage_next_oid c s t g o st : next_oid (next_stage c s t g o st) = next_oid s. Proof. ns_field. Qed.

Ltac lw_field :=
  intros; unfold leave_wait;
  match goal with |- context [if ?a then _ else _] => destruct a end;
  autorewrite with fld; reflexivity.

Lemma leave_wait_closed s t a : closed (leave_wait s t a) = closed s. Proof. lw_field. Qed.
Lemma leave_wait_vec s t a : vec (leave_wait s t a) = vec s. Proof. lw_field. Qed.
Lemma leave_wait_size s t a : size (leave_wait s t a) = size s. Proof. lw_field. Qed.
Lemma leave_wait_maxs s t a : maxs (leave_wait s t a) = maxs s. Proof. lw_field. Qed.
Lemma leave_wait_debt s t a : debt (leave_wait s t a) = debt s. Proof. lw_field. Qed.
Lemma leave_wait_users s t a : users (leave_wait s t a) = users s. Proof. lw_field. Qed.
Lemma leave_wait_out s t a : out (leave_wait s t a) = out s. Proof. lw_field. Qed.
Lemma leave_wait_alive s t a : alive (leave_wait s t a) = alive s. Proof. lw_field. Qed.
Lemma leave_wait_clock s t a : clock (leave_wait s t a) = clock s. Proof. lw_field. Qed.
Lemma leave_wait_next_oid s t a : next_oid (leave_wait s t a) = next_oid s. Proof. lw_field. Qed.
Lemma leave_wait_log s t a : log (leave_wait s t a) = log s. Proof. lw_field. Qed.

#[export] Hint Rewrite acquire_closed acquire_vec acquire_size acquire_maxs acquire_debt acquire_users
  acquire_out acquire_alive acquire_clock acquire_next_oid acquire_log
  next_stage_permits next_stage_closed next_stage_queue next_stage_vec next_stage_size next_stage_maxs
  next_stage_debt next_stage_users next_stage_alive next_stage_clock next_stage_next_oid
  leave_wait_closed leave_wait_vec leave_wait_size leave_wait_maxs leave_wait_debt leave_wait_users
  leave_wait_out leave_wait_alive leave_wait_clock leave_wait_next_oid leave_wait_log : fld.

(* resize_locked: fields it never touches, without any precondition *)
Lemma resize_locked_frame s t n :
  let s' := resize_locked s t n in
  out s' = out s /\ users s' = users s /\ alive s' = alive s /\ closed s' = closed s
  /\ clock s' = clock s /\ next_oid s' = next_oid s /\ maxs s' = n.
Proof.
  unfold resize_locked. cbv zeta.
  match goal with |- context [shrink_idle t ?f ?x] =>
    pose proof (shrink_idle_effect t f x) as H; set (s1 := shrink_idle t f x) in * end.
  cbv zeta in H. sp. destruct H as (H1&H2&H3&H4&H5&H6&H7&H8&H9&H10&H11&H12&H13).
  destruct (Z.ltb n (maxs s)).
  - sp. rewrite H8, H6, H9, H2, H10, H11. splits; try reflexivity; assumption.
  - destruct (Z.ltb (maxs s) n).
    + match goal with |- context [sem_add_n ?k ?x] =>
        pose proof (sem_add_n_fields k x) as (F1&F2&F3&F4&F5&F6&F7&F8&F9&F10&F11) end.
      rewrite F6, F5, F7, F8, F9, F10, F3. sp. rewrite H8, H6, H9, H2, H10, H11, H4. splits; reflexivity.
    + rewrite H8, H6, H9, H2, H10, H11, H4. splits; reflexivity.
Qed.

(* when nothing has to shrink, idle objects stay *)
Lemma shrink_idle_final t fuel s :
  (length (vec s) <= fuel)%nat ->
  let s' := shrink_idle t fuel s in size s' <= maxs s' \/ vec s' = [].
Proof.
  revert s; induction fuel as [|f IH]; intros s Hf; cbn [shrink_idle].
  - right. destruct (vec s); [reflexivity|cbn in Hf; lia].
  - destruct (Z.ltb (maxs s) (size s)) eqn:E.
    + destruct (vec s) as [|o r] eqn:Ev; [right; exact Ev|].
      apply IH. sp. cbn [length] in Hf. lia.
    + left. apply Z.ltb_ge in E. exact E.
Qed.

(* after any resize: no idle object is kept above the limit *)
Lemma resize_locked_released s t n :
  let s' := resize_locked s t n in size s' <= maxs s' \/ vec s' = [].
Proof.
  pose proof (resize_locked_frame s t n) as F. cbv zeta in F. destruct F as (_&_&_&_&_&_&Fm).
  cbv zeta. rewrite Fm. unfold resize_locked. cbv zeta.
  match goal with |- context [shrink_idle t ?f ?x] =>
    pose proof (shrink_idle_effect t f x) as H; pose proof (shrink_idle_final t f x (le_n _)) as F;
    set (s1 := shrink_idle t f x) in * end.
  cbv zeta in H, F. sp. destruct H as (H1&H2&H3&H4&H5&H6&H7&H8&H9&H10&H11&H12&H13).
  rewrite H4 in F.
  destruct (Z.ltb n (maxs s)); [sp; exact F|].
  destruct (Z.ltb (maxs s) n); [|exact F].
  match goal with |- context [sem_add_n ?k ?x] =>
    pose proof (sem_add_n_fields k x) as (F1&F2&F3&F4&F5&F6&F7&F8&F9&F10&F11) end.
  rewrite F1, F2. sp. exact F.
Qed.

Lemma resize_locked_out s t n : out (resize_locked s t n) = out s.
Proof. apply (resize_locked_frame s t n). Qed.
Lemma resize_locked_users s t n : users (resize_locked s t n) = users s.
Proof. apply (resize_locked_frame s t n). Qed.
Lemma resize_locked_alive s t n : alive (resize_locked s t n) = alive s.
Proof. apply (resize_locked_frame s t n). Qed.
Lemma resize_locked_closed s t n : closed (resize_locked s t n) = closed s.
Proof. apply (resize_locked_frame s t n). Qed.
Lemma resize_locked_clock s t n : clock (resize_locked s t n) = clock s.
Proof. apply (resize_locked_frame s t n). Qed.
Lemma resize_locked_next_oid s t n : next_oid (resize_locked s t n) = next_oid s.
Proof. apply (resize_locked_frame s t n). Qed.
Lemma resize_locked_maxs s t n : maxs (resize_locked s t n) = n.
Proof. apply (resize_locked_frame s t n). Qed.

Lemma emit_removed_alive t l s : alive (emit_removed t l s) = alive s.
Proof. apply (emit_removed_fields t l s). Qed.
Lemma emit_removed_closed t l s : closed (emit_removed t l s) = closed s.
Proof. apply (emit_removed_fields t l s). Qed.
Lemma emit_removed_maxs t l s : maxs (emit_removed t l s) = maxs s.
Proof. apply (emit_removed_fields t l s). Qed.
Lemma emit_removed_vec t l s : vec (emit_removed t l s) = vec s.
Proof. apply (emit_removed_fields t l s). Qed.
Lemma emit_removed_size t l s : size (emit_removed t l s) = size s.
Proof. apply (emit_removed_fields t l s). Qed.
Lemma emit_removed_permits t l s : permits (emit_removed t l s) = permits s.
Proof. apply (emit_removed_fields t l s). Qed.
Lemma emit_removed_debt t l s : debt (emit_removed t l s) = debt s.
Proof. apply (emit_removed_fields t l s). Qed.
Lemma emit_removed_users t l s : users (emit_removed t l s) = users s.
Proof. apply (emit_removed_fields t l s). Qed.
Lemma emit_removed_tasks t l s : tasks (emit_removed t l s) = tasks s.
Proof. apply (emit_removed_fields t l s). Qed.
Lemma emit_removed_out t l s : out (emit_removed t l s) = out s.
Proof. apply (emit_removed_fields t l s). Qed.
Lemma emit_removed_queue t l s : queue (emit_removed t l s) = queue s.
Proof. apply (emit_removed_fields t l s). Qed.
Lemma emit_removed_next_oid t l s : next_oid (emit_removed t l s) = next_oid s.
Proof. apply (emit_removed_fields t l s). Qed.

Lemma emit_destroyed_alive t l s : alive (emit_destroyed t l s) = alive s.
Proof. apply (emit_destroyed_fields t l s). Qed.
Lemma emit_destroyed_closed t l s : closed (emit_destroyed t l s) = closed s.
Proof. apply (emit_destroyed_fields t l s). Qed.
Lemma emit_destroyed_maxs t l s : maxs (emit_destroyed t l s) = maxs s.
Proof. apply (emit_destroyed_fields t l s). Qed.
Lemma emit_destroyed_vec t l s : vec (emit_destroyed t l s) = vec s.
Proof. apply (emit_destroyed_fields t l s). Qed.
Lemma emit_destroyed_tasks t l s : tasks (emit_destroyed t l s) = tasks s.
Proof. apply (emit_destroyed_fields t l s). Qed.
Lemma emit_destroyed_out t l s : out (emit_destroyed t l s) = out s.
Proof. apply (emit_destroyed_fields t l s). Qed.
Lemma emit_destroyed_next_oid t l s : next_oid (emit_destroyed t l s) = next_oid s.
Proof. apply (emit_destroyed_fields t l s). Qed.

#[export] Hint Rewrite resize_locked_out resize_locked_users resize_locked_alive resize_locked_closed
  resize_locked_clock resize_locked_next_oid resize_locked_maxs
  emit_removed_alive emit_removed_closed emit_removed_maxs emit_removed_vec emit_removed_size
  emit_removed_permits emit_removed_debt emit_removed_users emit_removed_tasks emit_removed_out
  emit_removed_queue emit_removed_next_oid
  emit_destroyed_alive emit_destroyed_closed emit_destroyed_maxs emit_destroyed_vec
  emit_destroyed_tasks emit_destroyed_out emit_destroyed_next_oid : fld.

Lemma emit_destroyed_queue t l s : queue (emit_destroyed t l s) = queue s.
Proof. apply (emit_destroyed_fields t l s). Qed.
Lemma emit_destroyed_permits t l s : permits (emit_destroyed t l s) = permits s.
Proof. apply (emit_destroyed_fields t l s). Qed.
Lemma emit_destroyed_size t l s : size (emit_destroyed t l s) = size s.
Proof. apply (emit_destroyed_fields t l s). Qed.
Lemma emit_destroyed_debt t l s : debt (emit_destroyed t l s) = debt s.
Proof. apply (emit_destroyed_fields t l s). Qed.
Lemma emit_destroyed_users t l s : users (emit_destroyed t l s) = users s.
Proof. apply (emit_destroyed_fields t l s). Qed.
#[export] Hint Rewrite emit_destroyed_queue emit_destroyed_permits emit_destroyed_size
  emit_destroyed_debt emit_destroyed_users : fld.

Lemma emit_removed_clock t l s : clock (emit_removed t l s) = clock s.
Proof. apply (emit_removed_fields t l s). Qed.
Lemma emit_destroyed_clock t l s : clock (emit_destroyed t l s) = clock s.
Proof. apply (emit_destroyed_fields t l s). Qed.
#[export] Hint Rewrite emit_removed_clock emit_destroyed_clock : fld.
