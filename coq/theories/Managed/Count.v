(* Object identity by counting: for every object id, the number of places that hold it (idle
   queue, callers' hands, program counters) plus the number of Manager::detach calls made for
   it is exactly 1 once it has been created, and 0 before. This gives at once: no object is
   duplicated or lost, detach is called at most once, never for an object the pool still owns,
   and exactly once for every object it has let go of (C09); a detached object never returns
   (C04). *)
From Coq Require Import List ZArith Lia Bool Arith.
From DP Require Import Common.Tab Managed.Model Managed.Contrib Managed.Simp Managed.InvQ
  Managed.Effects Managed.StepCases Managed.Frame Managed.InvG Managed.InvClose.
Import ListNotations.
Open Scope Z_scope.

Definition beq (x y : nat) : Z := if Nat.eqb x y then 1 else 0.

Lemma beq_range x y : 0 <= beq x y <= 1.
Proof. unfold beq. destruct (Nat.eqb x y); lia. Qed.

Fixpoint zcount (x : nat) (l : list obj) : Z :=
  match l with [] => 0 | o :: r => beq x (oid o) + zcount x r end.

Lemma zcount_nonneg x l : 0 <= zcount x l.
Proof. induction l as [|o r IH]; cbn [zcount]; [lia|]. pose proof (beq_range x (oid o)). lia. Qed.

Lemma zcount_app x l1 l2 : zcount x (l1 ++ l2) = zcount x l1 + zcount x l2.
Proof. induction l1 as [|o r IH]; cbn [zcount app]; lia. Qed.

Lemma zcount_rev x l : zcount x (rev l) = zcount x l.
Proof. induction l as [|o r IH]; cbn [rev zcount]; [reflexivity|]. rewrite zcount_app, IH. cbn [zcount]. lia. Qed.

Lemma pop_idle_zcount c v o r x : pop_idle c v = Some (o, r) -> zcount x v = beq x (oid o) + zcount x r.
Proof.
  unfold pop_idle. destruct (lifo c).
  - destruct (rev v) as [|y l] eqn:E; [discriminate|]. intros H. inversion H; subst.
    rewrite <- (zcount_rev x v), E. cbn [zcount]. rewrite zcount_rev. reflexivity.
  - destruct v as [|y l]; [discriminate|]. intros H. inversion H; subst. reflexivity.
Qed.

Lemma find_remove_zcount y l o x :
  find_oid y l = Some o -> oid o = y /\ zcount x l = beq x y + zcount x (remove_oid y l).
Proof.
  induction l as [|z l IH]; cbn [find_oid remove_oid zcount]; [discriminate|].
  destruct (Nat.eqb y (oid z)) eqn:E; intros H.
  - inversion H; subst. apply Nat.eqb_eq in E. split; [congruence|]. rewrite E. reflexivity.
  - destruct (IH H) as [H1 H2]. split; [exact H1|]. cbn [zcount]. lia.
Qed.

(* the object a program counter carries *)
Definition pobj (p : pc) : option obj :=
  match p with
  | GRec _ o _ | GCreated _ o | GPostC _ o _ | UUnready _ o _ | UDetach _ o _
  | RStart o | RLock o | RSurplus o | RDetach o | TStart o | TLock o | TAdd o | TDetach o => Some o
  | _ => None
  end.

Definition pcnt (x : nat) (p : pc) : Z :=
  match pobj p with Some o => beq x (oid o) | None => 0 end.

Lemma pcnt_nonneg x p : 0 <= pcnt x p.
Proof. unfold pcnt. destruct (pobj p); [apply beq_range|lia]. Qed.

Fixpoint dcount (x : nat) (l : list event) : Z :=
  match l with
  | [] => 0
  | EDetach y _ :: r => beq x y + dcount x r
  | _ :: r => dcount x r
  end.

Lemma dcount_nonneg x l : 0 <= dcount x l.
Proof.
  induction l as [|e r IH]; cbn [dcount]; [lia|].
  destruct e; try exact IH. pose proof (beq_range x o). lia.
Qed.

Definition cnt (x : nat) (s : state) : Z :=
  zcount x (vec s) + zcount x (out s) + sum (pcnt x) (tasks s).

Definition born (x : nat) (s : state) : Z := if Nat.ltb x (next_oid s) then 1 else 0.

Definition DI (s : state) : Prop :=
  alive s = true -> forall x, cnt x s + dcount x (log s) = born x s.

Lemma DI_init c : DI (init c).
Proof. intros _ x. unfold cnt, born. cbn. reflexivity. Qed.

(* ---- sums that ignore waiters are not affected by the semaphore *)
Lemma sem_add_sum_gen f s :
  f PNone = 0 -> (forall g a, f (GWait g a) = 0) -> GQ s ->
  sum f (tasks (sem_add s)) = sum f (tasks s).
Proof.
  intros H0 Hw G. destruct (sem_add_cases s G) as [[Eq ->]|(w & q & g & Eq & Hpw & Hp & ->)].
  - reflexivity.
  - rewrite sum_setpc by exact H0. change (pcof (set_queue s q) w) with (pcof s w).
    rewrite Hpw, !Hw. sp. lia.
Qed.

Lemma sem_add_n_sum_gen f n s :
  f PNone = 0 -> (forall g a, f (GWait g a) = 0) -> GQ s ->
  sum f (tasks (sem_add_n n s)) = sum f (tasks s).
Proof.
  intros H0 Hw. revert s; induction n as [|n IH]; intros s G; cbn [sem_add_n]; [reflexivity|].
  rewrite IH by (apply GQ_sem_add, G). apply sem_add_sum_gen; assumption.
Qed.

Lemma pcnt_wait x g a : pcnt x (GWait g a) = 0. Proof. reflexivity. Qed.

(* ---- composite helpers *)
Lemma shrink_idle_count t fuel s x :
  zcount x (vec (shrink_idle t fuel s)) + dcount x (log (shrink_idle t fuel s))
  = zcount x (vec s) + dcount x (log s).
Proof.
  revert s; induction fuel as [|f IH]; intros s; cbn [shrink_idle]; [reflexivity|].
  destruct (Z.ltb (maxs s) (size s)); [|reflexivity].
  destruct (vec s) as [|o r] eqn:Ev; [rewrite Ev; reflexivity|].
  rewrite IH. sp. cbn [dcount zcount]. lia.
Qed.

Lemma retain_loop_count t ds v s x :
  let '(s', kept, removed) := retain_loop t ds v s in
  zcount x kept + dcount x (log s') = zcount x v + dcount x (log s).
Proof.
  revert ds s; induction v as [|o r IH]; intros ds s; cbn [retain_loop]; [reflexivity|].
  destruct (match ds with [] => true | d :: _ => d end).
  - match goal with |- context [retain_loop t ?d r ?y] =>
      specialize (IH d y); destruct (retain_loop t d r y) as [[s2 k2] r2] end.
    cbn [zcount]. sp. cbn [dcount] in IH. lia.
  - match goal with |- context [retain_loop t ?d r ?y] =>
      specialize (IH d y); destruct (retain_loop t d r y) as [[s2 k2] r2] end.
    cbn [zcount]. sp. cbn [dcount] in IH. lia.
Qed.

Lemma emit_removed_dcount t l s x : dcount x (log (emit_removed t l s)) = dcount x (log s).
Proof. revert s; induction l as [|o r IH]; intros s; cbn [emit_removed]; [reflexivity|]. rewrite IH. reflexivity. Qed.

Lemma emit_destroyed_dcount t l s x : dcount x (log (emit_destroyed t l s)) = dcount x (log s).
Proof. revert s; induction l as [|o r IH]; intros s; cbn [emit_destroyed]; [reflexivity|]. rewrite IH. reflexivity. Qed.

Lemma resize_locked_count s t n x :
  GQ s ->
  let s' := resize_locked s t n in
  zcount x (vec s') + dcount x (log s') = zcount x (vec s) + dcount x (log s)
  /\ sum (pcnt x) (tasks s') = sum (pcnt x) (tasks s).
Proof.
  intros G. unfold resize_locked. cbv zeta.
  match goal with |- context [shrink_idle t ?f ?y] =>
    pose proof (shrink_idle_count t f y x) as C; pose proof (shrink_idle_effect t f y) as H;
    set (s1 := shrink_idle t f y) in * end.
  cbv zeta in H. sp. destruct H as (H1&H2&H3&H4&H5&H6&H7&H8&H9&H10&H11&H12&H13).
  assert (G1 : GQ s1) by (apply GQ_same with s; assumption).
  destruct (Z.ltb n (maxs s)).
  - sp. rewrite H7. split; [exact C|reflexivity].
  - destruct (Z.ltb (maxs s) n).
    + match goal with |- context [sem_add_n ?k ?y] =>
        pose proof (sem_add_n_fields k y) as (F1&F2&F3&F4&F5&F6&F7&F8&F9&F10&F11);
        pose proof (sem_add_n_sum_gen (pcnt x) k y eq_refl (pcnt_wait x)) as S end.
      rewrite F1, F11, S.
      * sp. rewrite H7. split; [exact C|reflexivity].
      * apply GQ_same with s1; sp; try reflexivity. exact G1.
    + rewrite H7. split; [exact C|reflexivity].
Qed.

(* ---- the tasks after the helpers that change only the acting task *)
Lemma acquire_tasks c s t g :
  exists p, tasks (acquire c s t g) = upd PNone t p (tasks s) /\ pobj p = None.
Proof.
  unfold acquire.
  repeat match goal with
         | |- context [match ?x with _ => _ end] => destruct x
         end; sp; eexists; split; reflexivity.
Qed.

Lemma next_stage_count c s t g o st x :
  zcount x (out (next_stage c s t g o st)) + sum (pcnt x) (tasks (next_stage c s t g o st))
  = zcount x (out s) + (sum (pcnt x) (tasks s) - pcnt x (pcof s t) + beq x (oid o))
  /\ dcount x (log (next_stage c s t g o st)) = dcount x (log s)
  /\ vec (next_stage c s t g o st) = vec s.
Proof.
  unfold next_stage, enter_stage, hand_out, recycled_obj.
  repeat match goal with
         | |- context [match ?y with _ => _ end] => destruct y
         end; sp; rewrite ?(sum_upd PNone) by reflexivity; unfold pcof;
    cbn [pcnt pobj dcount zcount oid bump recycled_obj]; splits; try reflexivity; lia.
Qed.

Lemma leave_wait_count s t a x :
  GQ s ->
  sum (pcnt x) (tasks (leave_wait s t a)) = sum (pcnt x) (tasks s).
Proof.
  intros G. unfold leave_wait. destruct a.
  - apply sem_add_sum_gen; [reflexivity|apply pcnt_wait|exact G].
  - reflexivity.
Qed.

Lemma pcof_leave_wait s t a :
  GQ s -> (a = true -> waiting_pc (pcof s t) = false) -> pcof (leave_wait s t a) t = pcof s t.
Proof.
  intros G Ha. unfold leave_wait. destruct a.
  - apply pcof_sem_add; auto.
  - reflexivity.
Qed.

Ltac di_arith :=
  rewrite ?(sum_upd PNone) by reflexivity;
  repeat match goal with E : pcof ?s ?t = _ |- _ => unfold pcof in E; rewrite ?E in * end;
  cbn [pcnt pobj dcount zcount oid idle_at new_obj bump recycled_obj] in *; rewrite ?zcount_app in *; cbn [zcount] in *;
  try lia.

Lemma born_succ x s :
  (if Nat.ltb x (S (next_oid s)) then 1 else 0) = (if Nat.ltb x (next_oid s) then 1 else 0) + beq x (next_oid s).
Proof.
  unfold beq. destruct (Nat.ltb_spec x (S (next_oid s))), (Nat.ltb_spec x (next_oid s)), (Nat.eqb_spec x (next_oid s)); lia.
Qed.

Theorem DI_step c s l s' : GQ s -> GA s -> DI s -> step c s l = Some s' -> DI s'.
Proof.
  intros G A D H. unfold DI. intros Ha' x.
  pose proof (alive_mono _ _ _ _ H Ha') as Ha. specialize (D Ha x).
  pose proof (a_debt _ A) as Hdebt.
  unfold cnt, born in *.
  step_leaves H; sp; autorewrite with fld in *; sp; try discriminate Ha';
    try match goal with E : negb (Nat.eqb ?t (length (tasks s))) = false |- _ =>
          apply negb_false_iff in E; apply pcof_fresh in E end;
    try match goal with E : find_oid ?y (out s) = Some ?o |- _ =>
          destruct (find_remove_zcount y (out s) o x E) as [? ?]; subst end;
    try match goal with E : pop_idle _ (vec s) = Some _ |- _ =>
          pose proof (pop_idle_zcount _ _ _ _ x E) end;
    di_arith.
  - (* acquire *)
    destruct (acquire_tasks c s t g) as (p & Et & Hp). rewrite Et.
    rewrite (sum_upd PNone) by reflexivity. rewrite Heqp. unfold pcnt in *. rewrite Hp. cbn [pobj]. lia.
  - (* first stage of a recycle *)
    destruct (first_stage c); cbn [dcount]; lia.
  - (* sem_add cases *)
    rewrite (sem_add_sum_gen (pcnt x)) by (try reflexivity; try apply pcnt_wait; exact G).
    assert (E : get PNone t (tasks (sem_add s)) = UPermit r).
    { change (pcof (sem_add s) t = UPermit r). rewrite pcof_sem_add; [assumption|exact G|].
      unfold pcof. rewrite Heqp. reflexivity. }
    rewrite E. cbn [pcnt pobj]. lia.
  - (* the object becomes idle *)
    change (oid (idle_at s o)) with (oid o). lia.
  - rewrite (sem_add_sum_gen (pcnt x)) by (try reflexivity; try apply pcnt_wait; exact G).
    assert (E : get PNone t (tasks (sem_add s)) = RAdd).
    { change (pcof (sem_add s) t = RAdd). rewrite pcof_sem_add; [assumption|exact G|].
      unfold pcof. rewrite Heqp. reflexivity. }
    rewrite E. cbn [pcnt pobj]. lia.
  - rewrite (sem_add_sum_gen (pcnt x)) by (try reflexivity; try apply pcnt_wait; exact G).
    assert (E : get PNone t (tasks (sem_add s)) = RSurplus o).
    { change (pcof (sem_add s) t = RSurplus o). rewrite pcof_sem_add; [assumption|exact G|].
      unfold pcof. rewrite Heqp. reflexivity. }
    rewrite E. cbn [pcnt pobj]. lia.
  - rewrite (sem_add_sum_gen (pcnt x)) by (try reflexivity; try apply pcnt_wait; exact G).
    assert (E : get PNone t (tasks (sem_add s)) = TAdd o).
    { change (pcof (sem_add s) t = TAdd o). rewrite pcof_sem_add; [assumption|exact G|].
      unfold pcof. rewrite Heqp. reflexivity. }
    rewrite E. cbn [pcnt pobj]. lia.
  - (* resize *)
    destruct (resize_locked_count s t (Z.of_nat n) x G) as [C1 C2].
    pose proof (resize_locked_effect s t (Z.of_nat n) G Hdebt (Zle_0_nat n)) as E. cbv zeta in E.
    destruct E as (_&_&_&_&_&_&_&_&_&_&_&_&_&_&_&_&Hpcs).
    assert (E : get PNone t (tasks (resize_locked s t (Z.of_nat n))) = OResizeL n).
    { change (pcof (resize_locked s t (Z.of_nat n)) t = OResizeL n). rewrite Hpcs; unfold pcof; rewrite Heqp; reflexivity. }
    rewrite E, C2. cbn [pcnt pobj]. lia.
  - (* retain *)
    match goal with E : retain_loop ?t ?ds (vec s) s = (?s1, ?kept, ?rem) |- _ =>
      pose proof (retain_loop_effect t ds (vec s) s) as R; pose proof (retain_loop_count t ds (vec s) s x) as C;
      rewrite E in R, C;
      destruct R as (R1&R2&R3&R4&R5&R6&R7&R8&R9&R10&R11&R12&R13&R14) end.
    rewrite emit_removed_dcount. sp. cbn [dcount]. rewrite ?R9, ?R10, ?R13 in *.
    rewrite Heqp. cbn [pcnt pobj]. lia.
  - (* close *)
    set (s0 := set_queue (set_closed s true) []) in *.
    assert (G0 : GQ s0).
    { destruct G as [H1 H2 H3 H4 H5]. subst s0. constructor; sp; try assumption.
      - intros w [].
      - constructor.
      - intros Hq. contradiction.
      - reflexivity. }
    destruct (resize_locked_count s0 t 0 x G0) as [C1 C2].
    pose proof (resize_locked_effect s0 t 0 G0 Hdebt (Z.le_refl 0)) as E. cbv zeta in E.
    destruct E as (_&_&_&_&_&_&_&_&_&_&_&_&_&_&_&_&Hpcs).
    assert (E : get PNone t (tasks (resize_locked s0 t 0)) = OCloseL).
    { change (pcof (resize_locked s0 t 0) t = OCloseL). rewrite Hpcs; unfold pcof; subst s0; sp; rewrite Heqp; reflexivity. }
    rewrite E, C2. subst s0. sp. cbn [pcnt pobj]. lia.
  - (* status *)
    unfold status_event. cbn [dcount]. lia.
  - (* next stage *)
    destruct (next_stage_count c s t g o st x) as (N1&N2&N3).
    unfold pcof in N1. rewrite Heqp in N1. cbn [pcnt pobj] in N1. rewrite N2. lia.
  - (* create *)
    rewrite born_succ. lia.
  - (* cancel while waiting *)
    rewrite leave_wait_count by exact G.
    assert (E : get PNone t (tasks (leave_wait s t a)) = GWait g a).
    { change (pcof (leave_wait s t a) t = GWait g a). rewrite pcof_leave_wait; [unfold pcof; assumption|exact G|].
      intros ->. unfold pcof. rewrite Heqp. reflexivity. }
    rewrite E. cbn [pcnt pobj]. lia.
  - rewrite leave_wait_count by exact G.
    assert (E : get PNone t (tasks (leave_wait s t a)) = GWait g a).
    { change (pcof (leave_wait s t a) t = GWait g a). rewrite pcof_leave_wait; [unfold pcof; assumption|exact G|].
      intros ->. unfold pcof. rewrite Heqp. reflexivity. }
    rewrite E. cbn [pcnt pobj]. lia.
Qed.
