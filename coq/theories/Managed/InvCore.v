(* Invariants for pools whose max_size is not being changed (no resize / close label):
   every idle object and every object in flight is backed by a permit, hence the number of
   live objects never exceeds max_size (C01). *)
From Coq Require Import List ZArith Lia Bool Arith.
From DP Require Import Common.Tab Managed.Model Managed.Contrib Managed.Simp Managed.InvQ
  Managed.Effects Managed.InvG.
Import ListNotations.
Open Scope Z_scope.

Definition norc_pc (p : pc) : bool :=
  match p with OResize _ | OClose | OResizeL _ | OCloseL => false | _ => true end.

Definition norc_label (l : label) : bool :=
  match l with
  | Start _ (OpResize _) | Start _ OpClose => false
  | _ => true
  end.

Definition no_rc (tr : list label) : bool := forallb norc_label tr.

Record CI (c : cfg) (s : state) : Prop := {
  ci_norc : forall t, norc_pc (pcof s t) = true;
  ci_debt : debt s = 0;
  ci_maxs : maxs s = Z.of_nat (max0 c);
  ci_closed : closed s = false;
  ci_back : alive s = true -> zlen (vec s) + sum ell (tasks s) <= permits s + sum hp (tasks s)
}.

Lemma CI_init c : CI c (init c).
Proof.
  constructor; cbn; try reflexivity; try lia.
  intros t. unfold pcof. cbn. destruct t; reflexivity.
Qed.

Lemma norc_setpc s0 s t p :
  tasks s0 = tasks s -> (forall t0, norc_pc (pcof s t0) = true) -> norc_pc p = true ->
  forall t0, norc_pc (pcof (setpc s0 t p) t0) = true.
Proof.
  intros Ht H Hp t0. destruct (Nat.eq_dec t t0) as [->|Hne].
  - rewrite pcof_setpc_same. exact Hp.
  - rewrite pcof_setpc_other by exact Hne. unfold pcof in *. rewrite Ht. apply H.
Qed.

Lemma norc_sem_add s : GQ s -> (forall t0, norc_pc (pcof s t0) = true) ->
  forall t0, norc_pc (pcof (sem_add s) t0) = true.
Proof.
  intros G H. destruct (sem_add_cases s G) as [[Eq ->]|(w & q & g & Eq & Hw & Hp & ->)].
  - exact H.
  - apply norc_setpc with (s := s); [reflexivity|exact H|reflexivity].
Qed.

Lemma CI_tick c s : CI c s -> CI c (tick s).
Proof. intros [C1 C2 C3 C4 C5]. constructor; sp; assumption. Qed.

Ltac ci_facts s :=
  pose proof (sum_le ell hp (tasks s) ell_le_hp);
  pose proof (sum_le cs ell (tasks s) cs_le_ell);
  pose proof (sum_nonneg ell (tasks s) ell_nonneg);
  pose proof (sum_nonneg cs (tasks s) cs_nonneg);
  pose proof (zlen_nonneg (vec s)); pose proof (zlen_nonneg (out s)).

(* goal: CI c (setpc X t p), X = s changed by plain setters; G A C are consumed *)
Ltac ci_plain s G A C Hpc :=
  let A1 := fresh "A1" in let A2 := fresh "A2" in let A3 := fresh "A3" in
  let A4 := fresh "A4" in let A5 := fresh "A5" in let Ha := fresh "Ha" in
  let C1 := fresh "C1" in let C2 := fresh "C2" in let C3 := fresh "C3" in
  let C4 := fresh "C4" in let C5 := fresh "C5" in
  ci_facts s; pose proof (q_pnn _ G);
  destruct A as [A1 A2 A3 A4 A5]; destruct C as [C1 C2 C3 C4 C5];
  constructor;
  [ apply norc_setpc with (s := s); [sp; reflexivity|exact C1|first [reflexivity|assumption]]
  | sp; first [assumption|lia]
  | sp; first [assumption|lia]
  | sp; assumption
  | sp; intros Ha; try discriminate Ha; specialize (A1 Ha); specialize (A2 Ha); specialize (A3 Ha);
    specialize (C5 Ha);
    rewrite ?(sum_upd PNone) by reflexivity; unfold pcof in Hpc; rewrite ?Hpc; cbn [hp cs up ell];
    rewrite ?zlen_cons, ?zlen_app, ?zlen_nil; cbn [zlen length Z.of_nat]; first [lia|congruence|idtac] ].

Ltac ci_sem s t G A C Hpc :=
  let A1 := fresh "A1" in let A2 := fresh "A2" in let A3 := fresh "A3" in
  let A4 := fresh "A4" in let A5 := fresh "A5" in let Ha := fresh "Ha" in
  let C1 := fresh "C1" in let C2 := fresh "C2" in let C3 := fresh "C3" in
  let C4 := fresh "C4" in let C5 := fresh "C5" in
  let S1 := fresh "S1" in let S2 := fresh "S2" in let S3 := fresh "S3" in
  let S4 := fresh "S4" in let S5 := fresh "S5" in let Hpc' := fresh "Hpc'" in
  pose proof (sem_add_sums s G) as (S1&S2&S3&S4&S5);
  assert (Hpc' : pcof (sem_add s) t = pcof s t)
    by (apply pcof_sem_add; [exact G|rewrite Hpc; reflexivity]);
  destruct A as [A1 A2 A3 A4 A5]; destruct C as [C1 C2 C3 C4 C5];
  constructor;
  [ apply norc_setpc with (s := sem_add s); [reflexivity|apply norc_sem_add; assumption|first [reflexivity|assumption]]
  | sp; autorewrite with fld; assumption
  | sp; autorewrite with fld; assumption
  | sp; autorewrite with fld; assumption
  | sp; autorewrite with fld; intros Ha; specialize (A1 Ha); specialize (A2 Ha); specialize (A3 Ha);
    specialize (C5 Ha);
    rewrite ?(sum_upd PNone) by reflexivity; unfold pcof in Hpc, Hpc'; rewrite ?Hpc', ?Hpc, ?S4;
    cbn [hp cs up ell]; lia ].

Lemma CI_acquire c s t g :
  GQ s -> GA s -> CI c s -> pcof s t = GAcq g -> CI c (acquire c s t g).
Proof.
  intros G A C Hpc. unfold acquire.
  destruct (gw g); cbn match;
    repeat match goal with |- context [if ?b then _ else _] => destruct b end;
    ci_plain s G A C Hpc.
Qed.

Lemma CI_leave_wait c s t g a p :
  GQ s -> GA s -> CI c s -> pcof s t = GWait g a -> hp p = 0 -> ell p = 0 -> norc_pc p = true ->
  CI c (setpc (leave_wait s t a) t p).
Proof.
  intros G A C Hpc Hh Hl Hn. unfold leave_wait. destruct a.
  - ci_sem s t G A C Hpc.
  - ci_plain s G A C Hpc.
Qed.

Theorem CI_step c s l s' :
  GQ s -> GA s -> CI c s -> norc_label l = true -> step c s l = Some s' -> CI c s'.
Proof.
  intros G A C Hl H. destruct l as [t o|t|t r|t|t|n]; cbn [step] in H.
  - (* Start *)
    unfold start in H. destruct (Nat.eqb t (length (tasks s))) eqn:Et; cbn [negb] in H; [|discriminate].
    pose proof (pcof_fresh s t Et) as Hpc.
    destruct o as [g|x|x|n|ds| | | ]; cbn [option_map] in H; try discriminate Hl.
    + destruct (alive s); inversion H; subst. apply CI_tick. ci_plain s G A C Hpc.
    + destruct (find_oid x (out s)) eqn:Ef; inversion H; subst. apply CI_tick.
      pose proof (find_remove_oid _ _ _ Ef). ci_plain s G A C Hpc.
    + destruct (find_oid x (out s)) eqn:Ef; inversion H; subst. apply CI_tick.
      pose proof (find_remove_oid _ _ _ Ef). ci_plain s G A C Hpc.
    + destruct (alive s); inversion H; subst. apply CI_tick. ci_plain s G A C Hpc.
    + destruct (alive s); inversion H; subst. apply CI_tick. ci_plain s G A C Hpc.
    + destruct (alive s && all_done (tasks s)); inversion H; subst. apply CI_tick. ci_plain s G A C Hpc.
  - (* Step *)
    unfold step_task in H.
    destruct (pcof s t) as [|g|g|g a|g|g|g o st|g|g o|g o k|g o k|g o k|r|r|o|o| |o|o|o|o|o|o|n|ds| | | |n|ds|ds| | |r] eqn:Hpc;
      cbn [option_map] in H; try discriminate H.
    + (* GStart *) destruct (gr g); [|destruct (runtime c)..]; inversion H; subst; apply CI_tick; ci_plain s G A C Hpc.
    + (* GAcq *) inversion H; subst. apply CI_tick, CI_acquire; assumption.
    + (* GWait *)
      rewrite (ci_closed _ _ C) in H.
      destruct a; inversion H; subst; apply CI_tick; [ci_plain s G A C Hpc|exact C].
    + (* GSettle *)
      destruct (Z.ltb 0 (debt s)) eqn:Ed; inversion H; subst; apply CI_tick;
        [apply Z.ltb_lt in Ed; pose proof (ci_debt _ _ C); lia|]; ci_plain s G A C Hpc.
    + (* GPop *)
      destruct (pop_idle c (vec s)) as [[o r]|] eqn:Ep.
      * inversion H; subst. apply CI_tick. pose proof (pop_idle_len _ _ _ _ Ep). ci_plain s G A C Hpc.
      * pose proof (pop_idle_none _ _ Ep) as Ev.
        assert (Ev0 : zlen (vec s) = 0) by (rewrite Ev; reflexivity).
        pose proof (sum_le_except PNone ell hp t (tasks s) eq_refl eq_refl ell_le_hp) as Hex.
        unfold pcof in Hpc. rewrite Hpc in Hex. cbn [ell hp] in Hex.
        destruct (gc g); [|destruct (runtime c)..]; inversion H; subst; apply CI_tick;
          ci_plain s G A C Hpc.
    + (* GCreated *)
      destruct (pcr c); inversion H; subst; apply CI_tick; ci_plain s G A C Hpc.
    + (* UUnready *) inversion H; subst. apply CI_tick. ci_plain s G A C Hpc.
    + (* UDetach *) destruct k; inversion H; subst; apply CI_tick; ci_plain s G A C Hpc.
    + (* UPermit *) inversion H; subst. apply CI_tick. ci_sem s t G A C Hpc.
    + (* UUsers *) inversion H; subst. apply CI_tick. ci_plain s G A C Hpc.
    + (* RStart *) destruct (alive s) eqn:Eal; inversion H; subst; apply CI_tick; ci_plain s G A C Hpc.
    + (* RLock *)
      destruct (Z.leb (size s) (maxs s)) eqn:Es; inversion H; subst; apply CI_tick;
        [|apply Z.leb_gt in Es]; ci_plain s G A C Hpc.
    + (* RAdd *) inversion H; subst. apply CI_tick. ci_sem s t G A C Hpc.
    + (* RSurplus *) inversion H; subst. apply CI_tick. ci_sem s t G A C Hpc.
    + (* RDetach *) inversion H; subst. apply CI_tick. ci_plain s G A C Hpc.
    + (* TStart *) destruct (alive s) eqn:Eal; inversion H; subst; apply CI_tick; ci_plain s G A C Hpc.
    + (* TLock *) inversion H; subst. apply CI_tick. ci_plain s G A C Hpc.
    + (* TAdd *) inversion H; subst. apply CI_tick. ci_sem s t G A C Hpc.
    + (* TDetach *) inversion H; subst. apply CI_tick. ci_plain s G A C Hpc.
    + (* OResize *) pose proof (ci_norc _ _ C t) as Hn. rewrite Hpc in Hn. discriminate Hn.
    + (* ORetain: to the lock point of its status() call *) inversion H; subst. apply CI_tick. ci_plain s G A C Hpc.
    + (* OClose *) pose proof (ci_norc _ _ C t) as Hn. rewrite Hpc in Hn. discriminate Hn.
    + (* OStatus: to its lock point *) inversion H; subst. apply CI_tick. ci_plain s G A C Hpc.
    + (* ODropPool *)
      inversion H; subst. apply CI_tick.
      match goal with |- CI c (setpc (emit_destroyed t ?l ?x) t _) =>
        pose proof (emit_destroyed_fields t l x) as F; cbv zeta in F; sp;
        destruct F as (F1&F2&F3&F4&F5&F6&F7&F8&F9&F10&F11&F12&F13) end.
      destruct C as [C1 C2 C3 C4 C5].
      constructor.
      * apply norc_setpc with (s := s); [rewrite F9; reflexivity|exact C1|reflexivity].
      * sp. rewrite F7. exact C2.
      * sp. rewrite F6. exact C3.
      * sp. rewrite F2. exact C4.
      * sp. rewrite F11. intros Ha. discriminate Ha.
    + (* OResizeL *) pose proof (ci_norc _ _ C t) as Hn. rewrite Hpc in Hn. discriminate Hn.
    + (* ORetainS: to retain's own lock point *) inversion H; subst. apply CI_tick. ci_plain s G A C Hpc.
    + (* ORetainL *)
      pose proof (retain_loop_effect t ds (vec s) s) as E.
      destruct (retain_loop t ds (vec s) s) as [[s1 kept] removed].
      destruct E as (E1&E2&E3&E4&E5&E6&E7&E8&E9&E10&E11&E12&E13&E14).
      inversion H; subst. apply CI_tick.
      match goal with |- CI c (setpc (emit_removed t removed ?x) t _) =>
        pose proof (emit_removed_fields t removed x) as F; cbv zeta in F; sp;
        destruct F as (F1&F2&F3&F4&F5&F6&F7&F8&F9&F10&F11&F12&F13) end.
      pose proof (zlen_nonneg removed).
      destruct A as [A1 A2 A3 A4 A5]; destruct C as [C1 C2 C3 C4 C5].
      constructor.
      * apply norc_setpc with (s := s); [rewrite F9; exact E9|exact C1|reflexivity].
      * sp. rewrite F7, E7. exact C2.
      * sp. rewrite F6, E6. exact C3.
      * sp. rewrite F2, E2. exact C4.
      * sp. rewrite F11, E11, F4, F1, E1, F9, E9. intros Ha. specialize (C5 Ha).
        rewrite ?(sum_upd PNone) by reflexivity. unfold pcof in Hpc. rewrite ?Hpc. cbn [hp ell]. lia.
    + (* OCloseL *) pose proof (ci_norc _ _ C t) as Hn. rewrite Hpc in Hn. discriminate Hn.
    + (* OStatusL *) inversion H; subst. apply CI_tick. ci_plain s G A C Hpc.
  - (* Env *)
    unfold env_task in H.
    destruct (pcof s t) as [|g|g|g a|g|g|g o st|g|g o|g o k|g o k|g o k|r0|r0|o|o| |o|o|o|o|o|o|n|ds| | | |n|ds|ds| | |r0] eqn:Hpc;
      cbn [option_map] in H; try discriminate H.
    + (* GRec *)
      destruct r; inversion H; subst; apply CI_tick; [|ci_plain s G A C Hpc..].
      unfold next_stage.
      destruct st as [k| |k];
        repeat match goal with
               | |- context [if ?b then _ else _] => destruct b
               | |- context [match post c with _ => _ end] => destruct (post c)
               end; ci_plain s G A C Hpc.
    + (* GCreate *) destruct r; inversion H; subst; apply CI_tick; ci_plain s G A C Hpc.
    + (* GPostC *)
      destruct r; [destruct (Nat.ltb (S k) (length (pcr c)))|..]; inversion H; subst; apply CI_tick;
        ci_plain s G A C Hpc.
  - (* Cancel *)
    unfold cancel_task in H.
    destruct (pcof s t) as [|g|g|g a|g|g|g o st|g|g o|g o k|g o k|g o k|r0|r0|o|o| |o|o|o|o|o|o|n|ds| | | |n|ds|ds| | |r0] eqn:Hpc;
      cbn [option_map] in H; try discriminate H.
    + inversion H; subst. apply CI_tick. eapply CI_leave_wait; try eassumption; reflexivity.
    + destruct (stage_async c st); inversion H; subst. apply CI_tick. ci_plain s G A C Hpc.
    + inversion H; subst. apply CI_tick. ci_plain s G A C Hpc.
    + destruct (is_async (pcr c) k); inversion H; subst. apply CI_tick. ci_plain s G A C Hpc.
  - (* Fire *)
    unfold fire_task in H. destruct (negb (runtime c)); [discriminate|].
    destruct (pcof s t) as [|g|g|g a|g|g|g o st|g|g o|g o k|g o k|g o k|r0|r0|o|o| |o|o|o|o|o|o|n|ds| | | |n|ds|ds| | |r0] eqn:Hpc;
      cbn [option_map] in H; try discriminate H.
    + destruct (gw g); inversion H; subst. apply CI_tick. eapply CI_leave_wait; try eassumption; reflexivity.
    + destruct st; try discriminate H. destruct (timed (gr g)); inversion H; subst. apply CI_tick. ci_plain s G A C Hpc.
    + destruct (timed (gc g)); inversion H; subst. apply CI_tick. ci_plain s G A C Hpc.
  - inversion H; subst. exact C.
Qed.
