(* Operational facts about single operations: which program counters can be stepped,
   where a get can be abandoned, that every unwind chain reaches its end, what close and
   resize do to acquire attempts, what status() reports. *)
From Coq Require Import List ZArith Lia Bool Arith.
From DP Require Import Common.Tab Managed.Model Managed.Contrib Managed.Simp Managed.InvQ
  Managed.Effects Managed.StepCases Managed.Frame Managed.InvG Managed.InvClose Managed.InvW
  Managed.Others Managed.All.
Import ListNotations.
Open Scope Z_scope.

(* ---------------------------------------------------------------- progress *)
(* the pcs at which the code is at a schedule point (not at a gate, not finished) *)
Definition runnable (p : pc) : bool :=
  match p with
  | PNone | GRec _ _ _ | GCreate _ | GPostC _ _ _ | PDone _ => false
  | _ => true
  end.

(* a gate: waits for the manager / a hook *)
Definition at_gate (p : pc) : bool :=
  match p with GRec _ _ _ | GCreate _ | GPostC _ _ _ => true | _ => false end.

Lemma step_enabled c s t : runnable (pcof s t) = true -> exists s', step c s (Step t) = Some s'.
Proof.
  intros H. cbn [step]. unfold step_task.
  destruct (pcof s t); try discriminate H;
    repeat match goal with
           | |- context [match ?x with _ => _ end] => destruct x
           end; cbn [option_map]; eexists; reflexivity.
Qed.

Lemma gate_enabled c s t r : at_gate (pcof s t) = true -> exists s', step c s (Env t r) = Some s'.
Proof.
  intros H. cbn [step]. unfold env_task.
  destruct (pcof s t); try discriminate H;
    repeat match goal with
           | |- context [match ?x with _ => _ end] => destruct x
           end; cbn [option_map]; eexists; reflexivity.
Qed.

(* ---------------------------------------------------------------- unwinding *)
(* number of steps the RAII undo chain still needs, and the result it will deliver *)
Definition unwind_len (p : pc) : option (nat * res) :=
  match p with
  | UUsers r => Some (1%nat, r)
  | UPermit r => Some (2%nat, r)
  | UDetach _ _ (CRes r) => Some (3%nat, r)
  | UUnready _ _ (CRes r) => Some (4%nat, r)
  | _ => None
  end.

Lemma pcof_tick s t : pcof (tick s) t = pcof s t. Proof. reflexivity. Qed.

Lemma unwind_step c s t n r :
  unwind_len (pcof s t) = Some (S n, r) ->
  exists s', step c s (Step t) = Some s' /\
             (match n with O => pcof s' t = PDone r | S _ => unwind_len (pcof s' t) = Some (n, r) end).
Proof.
  intros H. cbn [step]. unfold step_task.
  destruct (pcof s t) as [|g|g|g a|g|g|g o st|g|g o|g o k|g o k|g o k|r0|r0|o|o| |o|o|o|o|o|o|n0|ds| | | |n9|ds|ds| | |r0] eqn:Hpc;
    try discriminate H; cbn [unwind_len] in H.
  - destruct k; inversion H; subst. eexists. split; [reflexivity|].
    rewrite pcof_tick, pcof_setpc_same. reflexivity.
  - destruct k; inversion H; subst. eexists. split; [reflexivity|].
    rewrite pcof_tick, pcof_setpc_same. reflexivity.
  - inversion H; subst. eexists. split; [reflexivity|].
    rewrite pcof_tick, pcof_setpc_same. reflexivity.
  - inversion H; subst. eexists. split; [reflexivity|].
    rewrite pcof_tick, pcof_setpc_same. reflexivity.
Qed.

(* every unwind chain, run alone, reaches Done with the announced result: nothing inside
   get() can block or panic once it is unwinding *)
Theorem unwind_terminates c : forall n s t r,
  unwind_len (pcof s t) = Some (n, r) ->
  exists s', run c s (repeat (Step t) n) = Some s' /\ pcof s' t = PDone r.
Proof.
  induction n as [|n IH]; intros s t r H.
  - exfalso. destruct (pcof s t); cbn [unwind_len] in H; try discriminate H;
      match goal with k : cont |- _ => destruct k; discriminate H end.
  - destruct (unwind_step c s t n r H) as (s1 & Hs & Hn).
    cbn [repeat run]. rewrite Hs. destruct n as [|n'].
    + exists s1. split; [reflexivity|exact Hn].
    + apply IH. exact Hn.
Qed.

(* ---------------------------------------------------------------- cancellation points *)
Definition cancellable (c : cfg) (p : pc) : bool :=
  match p with
  | GWait _ _ => true
  | GRec _ _ st => stage_async c st
  | GCreate _ => true
  | GPostC _ _ k => is_async (pcr c) k
  | _ => false
  end.

Lemma cancel_enabled_iff c s t :
  (exists s', step c s (Cancel t) = Some s') <-> cancellable c (pcof s t) = true.
Proof.
  cbn [step]. unfold cancel_task, cancellable.
  destruct (pcof s t) as [|g|g|g a|g|g|g o st|g|g o|g o k|g o k|g o k|r0|r0|o|o| |o|o|o|o|o|o|n0|ds| | | |n9|ds|ds| | |r0];
    cbn [option_map];
    try (split; [intros [s' H]; discriminate H|intros H; discriminate H]);
    try (split; [reflexivity|intros _; eexists; reflexivity]).
  - destruct (stage_async c st); cbn [option_map]; split; try reflexivity;
      try (intros _; eexists; reflexivity); try (intros [s' H]; discriminate H); intros H; discriminate H.
  - destruct (is_async (pcr c) k); cbn [option_map]; split; try reflexivity;
      try (intros _; eexists; reflexivity); try (intros [s' H]; discriminate H); intros H; discriminate H.
Qed.

(* abandoning a get - dropping the future (Cancel), an enclosing timer (Fire) or a panic of
   the manager / a hook (Env OPanic) - always enters the unwind chain *)
Lemma cancel_unwinds c s t s' :
  step c s (Cancel t) = Some s' -> exists n r, unwind_len (pcof s' t) = Some (n, r).
Proof.
  cbn [step]. unfold cancel_task.
  destruct (pcof s t) as [|g|g|g a|g|g|g o st|g|g o|g o k|g o k|g o k|r0|r0|o|o| |o|o|o|o|o|o|n0|ds| | | |n9|ds|ds| | |r0];
    cbn [option_map]; try discriminate;
    try (destruct (stage_async c st)); try (destruct (is_async (pcr c) k)); cbn [option_map];
    try discriminate; intros H; inversion H; subst; rewrite pcof_tick, pcof_setpc_same;
    cbn [unwind_len]; eauto.
Qed.

Lemma panic_unwinds c s t s' :
  step c s (Env t OPanic) = Some s' ->
  exists n, unwind_len (pcof s' t) = Some (n, RPanicked).
Proof.
  cbn [step]. unfold env_task.
  destruct (pcof s t) as [|g|g|g a|g|g|g o st|g|g o|g o k|g o k|g o k|r0|r0|o|o| |o|o|o|o|o|o|n0|ds| | | |n9|ds|ds| | |r0];
    cbn [option_map]; try discriminate; intros H; inversion H; subst;
    rewrite pcof_tick, pcof_setpc_same; cbn [unwind_len]; eauto.
Qed.

(* the pc reached by Cancel and by a panic at the same gate differ only in the result *)
Definition strip (p : pc) : pc :=
  match p with
  | UUsers _ => UUsers RUnit
  | UPermit _ => UPermit RUnit
  | UDetach g o (CRes _) => UDetach g o (CRes RUnit)
  | UUnready g o (CRes _) => UUnready g o (CRes RUnit)
  | p => p
  end.

Lemma cancel_panic_same_unwind c s t s1 s2 :
  at_gate (pcof s t) = true ->
  step c s (Cancel t) = Some s1 -> step c s (Env t OPanic) = Some s2 ->
  strip (pcof s1 t) = strip (pcof s2 t)
  /\ permits s1 = permits s2 /\ size s1 = size s2 /\ users s1 = users s2 /\ vec s1 = vec s2
  /\ out s1 = out s2 /\ debt s1 = debt s2 /\ queue s1 = queue s2.
Proof.
  cbn [step]. unfold cancel_task, env_task.
  destruct (pcof s t) as [|g|g|g a|g|g|g o st|g|g o|g o k|g o k|g o k|r0|r0|o|o| |o|o|o|o|o|o|n0|ds| | | |n9|ds|ds| | |r0];
    cbn [at_gate option_map]; try discriminate;
    try (destruct (stage_async c st)); try (destruct (is_async (pcr c) k)); cbn [option_map];
    try discriminate; intros _ H1 H2; inversion H1; inversion H2; subst;
    rewrite !pcof_tick, !pcof_setpc_same; sp; splits; reflexivity.
Qed.

(* ---------------------------------------------------------------- close *)
Definition granted (p : pc) : bool :=
  match p with
  | GSettle _ | GPop _ | GRec _ _ _ | GCreate _ | GCreated _ _ | GPostC _ _ _
  | UUnready _ _ _ | UDetach _ _ _ | UPermit _ => true
  | _ => false
  end.

Lemma acquire_closed_pc c s t g :
  closed s = true ->
  pcof (acquire c s t g) t = UUsers RClosed \/ pcof (acquire c s t g) t = UUsers RNoRuntime.
Proof.
  intros Hc. unfold acquire. rewrite Hc.
  destruct (gw g); cbn match; try (left; apply pcof_setpc_same).
  destruct (negb (runtime c)); [right|left]; apply pcof_setpc_same.
Qed.

(* on a closed pool no acquire attempt, blocking or not, waiting or new, is ever granted *)
Theorem no_grant_when_closed c s l s' t0 :
  GQ s -> step c s l = Some s' -> closed s = true ->
  granted (pcof s' t0) = true -> granted (pcof s t0) = true.
Proof.
  intros G H Hc Hg.
  assert (Hother : label_task l <> Some t0 -> granted (pcof s t0) = true).
  { intros Hl. destruct (step_others c s l s' t0 G H Hl) as [E|(g&E1&E2)].
    - rewrite <- E. exact Hg.
    - rewrite E2 in Hg. discriminate Hg. }
  destruct (label_task l) as [t1|] eqn:El; [|apply Hother; discriminate].
  destruct (Nat.eq_dec t1 t0) as [->|Hne]; [|apply Hother; congruence].
  clear Hother.
  step_leaves H; cbn [label_task] in El; inversion El; subst;
    repeat match goal with E : pcof s t0 = _ |- _ => rewrite E in *; clear E end;
    try reflexivity;
    try (rewrite pcof_tick, pcof_setpc_same in Hg; cbn [granted] in Hg; discriminate Hg);
    try (unfold enter_stage, hand_out, enter_postc in Hg;
         rewrite pcof_tick, pcof_setpc_same in Hg; cbn [granted] in Hg; discriminate Hg);
    try congruence.
  exfalso. rewrite pcof_tick in Hg.
  destruct (acquire_closed_pc c s t0 g Hc) as [E|E]; rewrite E in Hg; discriminate Hg.
Qed.
