(* Observation function: what the correspondence check compares with the implementation
   after every label. The encoding (flat integer lists) is the one the harness prints. *)
From Coq Require Import List ZArith Lia Bool Arith.
From DP Require Import Common.Tab Managed.Model.
Import ListNotations.
Open Scope Z_scope.

Definition b2z (b : bool) : Z := if b then 1 else 0.
Definition n2z (n : nat) : Z := Z.of_nat n.
Definition recsome (o : obj) : Z := match recycled o with Some _ => 1 | None => 0 end.

Definition pc_code (cl : bool) (p : pc) : Z :=
  match p with
  | PNone => 0
  | GStart _ | RStart _ | TStart _ | OResize _ | ORetain _ | OClose | OStatus | ODropPool => 1
  | GAcq _ => 2
  | GWait _ a => 3 + b2z (a || cl)
  | GSettle _ => 5
  | GPop _ => 6
  | UUnready _ _ _ => 7
  | UDetach _ _ _ => 8
  | GCreated _ _ => 9
  | UPermit _ => 10
  | UUsers _ => 11
  | GRec _ _ (SPre k) => 20 + n2z k
  | GRec _ _ SRecycle => 30
  | GRec _ _ (SPost k) => 40 + n2z k
  | GCreate _ => 50
  | GPostC _ _ k => 60 + n2z k
  | RLock _ => 70
  | RAdd => 71
  | RDetach _ => 72
  | TLock _ => 73
  | TAdd _ => 74
  | TDetach _ => 75
  | RSurplus _ => 76
  | OResizeL _ => 80
  | OCloseL => 81
  | OStatusL | ORetainS _ => 82
  | ORetainL _ => 83
  | PDone r => 100 + res_code r
  end.

Definition ev_code (e : event) : list Z :=
  match e with
  | ECreateCall t => [1; n2z t; 0; 0; 0]
  | ERecycleCall o t => [2; n2z (oid o); n2z (rcount o); recsome o; n2z t]
  | EHookCall kind k o => [3; n2z kind * 10 + n2z k; n2z (oid o); n2z (rcount o); recsome o]
  | EDetach o t => [4; n2z o; n2z t; 0; 0]
  | EDestroy o t => [5; n2z o; n2z t; 0; 0]
  | EHandOut o t => [6; n2z (oid o); n2z t; n2z (rcount o); recsome o]
  | ERetainSee o => [7; n2z (oid o); n2z (rcount o); recsome o; 0]
  | ERetainResult k r => [8; n2z k; n2z r; 0; 0]
  | ERemoved o t => [9; n2z o; n2z t; 0; 0]
  | EStatus m s a w => [10; m; s; a; w]
  | ECreated o t => [11; n2z o; n2z t; 0; 0]
  end.

Definition idle_code (o : obj) : list Z := [n2z (oid o); n2z (rcount o); recsome o].

(* [prev] = length of the log before the label: only the events of this label are shown *)
Definition obs (prev : nat) (s : state) : list Z :=
  let evs := rev (firstn (length (log s) - prev) (log s)) in
  (if alive s
   then [1; permits s; b2z (closed s); size s; maxs s; users s; debt s; n2z (length (vec s))]
          ++ flat_map idle_code (vec s)
   else [0; 0; 0; 0; 0; 0; 0; 0])
  ++ [n2z (length (tasks s))] ++ map (pc_code (closed s)) (tasks s)
  ++ [n2z (length evs)] ++ flat_map ev_code evs.

(* all observations of a run, each prefixed by its length; -1 where the label was not
   enabled in the model (the run stops there) *)
Fixpoint run_obs (c : cfg) (s : state) (tr : list label) : list Z :=
  match tr with
  | [] => []
  | l :: tr' =>
      match step c s l with
      | Some s' =>
          let o := obs (length (log s)) s' in
          n2z (length o) :: o ++ run_obs c s' tr'
      | None => [-1]
      end
  end.

Definition run_case (x : cfg * list label) : list Z := run_obs (fst x) (init (fst x)) (snd x).

(* ---- comparison inside Coq: index of the first label after which the model's observation
   differs from the given one (or at which the model cannot take the label); -1 if none *)
Fixpoint zlist_eqb (a b : list Z) : bool :=
  match a, b with
  | [], [] => true
  | x :: a', y :: b' => Z.eqb x y && zlist_eqb a' b'
  | _, _ => false
  end.

Fixpoint first_diff (c : cfg) (s : state) (tr : list label) (os : list (list Z)) (i : Z) : Z :=
  match tr, os with
  | l :: tr', o :: os' =>
      match step c s l with
      | Some s' =>
          if zlist_eqb (obs (length (log s)) s') o then first_diff c s' tr' os' (i + 1) else i
      | None => i
      end
  | _, _ => -1
  end.
