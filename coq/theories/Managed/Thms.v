(* The property-level statements over reachable states; the files in Props/ restate them and
   close each with [exact]. *)
From Coq Require Import List ZArith Lia Bool Arith.
From DP Require Import Common.Tab Managed.Model Managed.Contrib Managed.Simp Managed.InvQ
  Managed.Effects Managed.StepCases Managed.Frame Managed.InvG Managed.InvClose Managed.InvW
  Managed.Others Managed.All Managed.Ops Managed.Ops2 Managed.InvCore Managed.Reach.
Import ListNotations.
Open Scope Z_scope.


(* ---- C02 *)
Lemma t_conservation c s : Reachable c s -> alive s = true ->
  permits s + sum hp (tasks s) + zlen (out s) = maxs s + debt s
  /\ size s = zlen (vec s) + zlen (out s) + sum cs (tasks s)
  /\ users s = sum up (tasks s) + zlen (out s).
Proof.
  intros R Ha. destruct (reachable_inv c s R) as [Q A K W].
  splits; [apply (a_perm _ A Ha)|apply (a_size _ A Ha)|apply (a_users _ A Ha)].
Qed.

Lemma t_rest_capacity c s : Reachable c s -> alive s = true -> at_rest s -> out s = [] ->
  permits s - debt s = maxs s /\ users s = 0 /\ size s = zlen (vec s).
Proof. intros R. apply rest_capacity, (reachable_inv c s R). Qed.

Lemma t_no_underflow c s : Reachable c s -> alive s = true ->
  0 <= permits s /\ 0 <= size s /\ 0 <= users s /\ 0 <= debt s /\ 0 <= maxs s /\ zlen (vec s) <= size s.
Proof. intros R. apply no_underflow, (reachable_inv c s R). Qed.

Lemma t_waiter_justified c s t : Reachable c s -> In t (queue s) ->
  permits s = 0 /\ closed s = false /\ exists g, pcof s t = GWait g false.
Proof.
  intros R Hin. destruct (reachable_inv c s R) as [Q A K W]. splits.
  - apply (q_perm _ Q). intros E. rewrite E in Hin. destruct Hin.
  - destruct (closed s) eqn:Ec; [|reflexivity]. rewrite (q_closed _ Q Ec) in Hin. destruct Hin.
  - pose proof (q_pc _ Q t Hin) as Hw.
    destruct (pcof s t) as [| | |g []| | | | | | | | | | | | | | | | | | | | | | | | | | | | | | ]; try discriminate Hw.
    exists g. reflexivity.
Qed.

Lemma t_waiter_queued c s t g : Reachable c s -> closed s = false -> pcof s t = GWait g false ->
  In t (queue s).
Proof. intros R Hc Hpc. destruct (reachable_inv c s R) as [Q A K W]. apply (W Hc t g Hpc). Qed.

Lemma t_release_wakes c s w q : Reachable c s -> queue s = w :: q ->
  exists g, pcof s w = GWait g false /\ pcof (sem_add s) w = GWait g true /\ queue (sem_add s) = q
            /\ permits (sem_add s) = permits s.
Proof. intros R. apply release_wakes, (inv_q _ (reachable_inv c s R)). Qed.

Lemma t_progress c s t : runnable (pcof s t) = true -> exists s', step c s (Step t) = Some s'.
Proof. apply step_enabled. Qed.

Lemma t_unwind_terminates c n s t r : unwind_len (pcof s t) = Some (n, r) ->
  exists s', run c s (repeat (Step t) n) = Some s' /\ pcof s' t = PDone r.
Proof. apply unwind_terminates. Qed.

(* ---- C06 *)
Lemma t_closed_sticky c s l s' : step c s l = Some s' -> closed s = true -> closed s' = true.
Proof. apply closed_mono. Qed.

Lemma t_closed_empty c s : Reachable c s -> alive s = true -> closed s = true ->
  maxs s = 0 /\ vec s = [].
Proof.
  intros R Ha Hc. destruct (reachable_inv c s R) as [Q A K W]. destruct (K Ha) as [K1 K2].
  split; [apply K1, Hc|apply K2, K1, Hc].
Qed.

Lemma t_no_grant_when_closed c s l s' t0 : Reachable c s -> step c s l = Some s' -> closed s = true ->
  granted (pcof s' t0) = true -> granted (pcof s t0) = true.
Proof. intros R. apply no_grant_when_closed, (inv_q _ (reachable_inv c s R)). Qed.

Lemma t_return_after_close c s t o : Reachable c s -> alive s = true -> closed s = true ->
  pcof s t = RLock o ->
  step c s (Step t) = Some (tick (setpc (set_size s (size s - 1)) t (RSurplus o))).
Proof. intros R. apply return_after_close, (reachable_inv c s R). Qed.

(* ---- C07 *)
Lemma t_resize_status c s t n : pcof s t = OResizeL n -> closed s = false ->
  exists s', step c s (Step t) = Some s' /\ maxs s' = Z.of_nat n
             /\ (size s' <= maxs s' \/ vec s' = []).
Proof.
  intros Hpc Hc. rewrite (resize_open c s t n Hpc Hc). eexists. split; [reflexivity|].
  sp. pose proof (resize_locked_released s t (Z.of_nat n)) as Rl. cbv zeta in Rl.
  rewrite resize_locked_maxs in *. split; [reflexivity|exact Rl].
Qed.

Lemma t_grant_bound c s t g : Reachable c s -> alive s = true -> pcof s t = GSettle g -> debt s = 0 ->
  zlen (out s) + 1 <= maxs s /\ sum hp (tasks s) + zlen (out s) <= maxs s.
Proof. intros R. apply grant_bound, (reachable_inv c s R). Qed.

Lemma t_commit_bound c s t g s' : Reachable c s -> alive s = true -> pcof s t = GPop g -> vec s = [] ->
  step c s (Step t) = Some s' ->
  live s' <= maxs s' + debt s' /\ maxs s' = maxs s /\ debt s' = debt s.
Proof. intros R. apply commit_bound, (reachable_inv c s R). Qed.

(* ---- C11 *)
Lemma t_status_at_rest c s : Reachable c s -> alive s = true -> quiescent s ->
  status_event s = EStatus (maxs s) (zlen (vec s) + zlen (out s)) (zlen (vec s)) (sum nwait (tasks s)).
Proof. intros R. apply status_at_rest, (reachable_inv c s R). Qed.

Lemma t_status_plausible c s m z a w : Reachable c s -> alive s = true ->
  status_event s = EStatus m z a w ->
  m = maxs s /\ z = zlen (vec s) + zlen (out s) + sum cs (tasks s)
  /\ a = zlen (vec s) /\ 0 <= a <= z /\ 0 <= w <= sum inget (tasks s) /\ 0 <= m /\ 0 <= z.
Proof. intros R. apply status_plausible, (reachable_inv c s R). Qed.

