(* Executable model of deadpool::managed::Pool (src/managed/mod.rs) at thread level.

   One step of the model is what one thread does between two schedule points of the code:
   exactly one lock region, one atomic read-modify-write or one semaphore operation.
   All nondeterminism (scheduler, outcomes of manager / hooks, cancellation, timers) is in
   the labels, so [step] is a function and "for all schedules and fault sequences" is
   "for all label lists". Nothing in this file is proved; see Inv*.v. *)
From Coq Require Import List ZArith Lia Bool Arith.
From DP Require Import Common.Tab.
Import ListNotations.
Open Scope Z_scope.

(* ------------------------------------------------------------------ basic data *)
Inductive outcome := OOk | OErr | OPanic.

(* result of an operation; the numbering is the one the harness prints *)
Inductive res :=
| ROk | RTimeoutWait | RTimeoutCreate | RTimeoutRecycle | RBackend | RPostCreate
| RClosed | RNoRuntime | RPanicked | RCancelled | RUnit.

Definition res_code (r : res) : Z :=
  match r with
  | ROk => 0 | RTimeoutWait => 1 | RTimeoutCreate => 2 | RTimeoutRecycle => 3
  | RBackend => 4 | RPostCreate => 5 | RClosed => 6 | RNoRuntime => 7
  | RPanicked => 8 | RCancelled => 9 | RUnit => 10
  end.

(* a timeout argument: absent, zero, or a positive duration *)
Inductive tmo := TNone | TZero | TFin.

(* per-call timeouts of a get *)
Record getk := { gw : tmo; gc : tmo; gr : tmo }.

(* pooled object with its Metrics; [created]/[recycled] are logical clock stamps *)
(* [since] and [handed] are ghosts: the logical time at which the object became idle, and the
   number of times it has been handed to a caller *)
Record obj := { oid : nat; created : nat; recycled : option nat; rcount : nat; since : nat;
                handed : nat }.

Record cfg := {
  max0 : nat;            (* configured max_size *)
  lifo : bool;           (* queue mode *)
  pre : list bool;       (* pre_recycle hooks, true = async *)
  post : list bool;      (* post_recycle hooks *)
  pcr : list bool;       (* post_create hooks *)
  runtime : bool         (* a runtime is configured *)
}.

Inductive stage := SPre (k : nat) | SRecycle | SPost (k : nat).

(* what the get does after it discarded the object in hand *)
Inductive cont := CLoop | CRes (r : res).

(* program counter of one operation: one constructor per schedule point / gate *)
Inductive pc :=
| PNone
(* get / timeout_get *)
| GStart (g : getk)
| GAcq (g : getk)
| GWait (g : getk) (a : bool)
| GSettle (g : getk)
| GPop (g : getk)
| GRec (g : getk) (o : obj) (st : stage)
| GCreate (g : getk)
| GCreated (g : getk) (o : obj)
| GPostC (g : getk) (o : obj) (k : nat)
| UUnready (g : getk) (o : obj) (c : cont)
| UDetach (g : getk) (o : obj) (c : cont)
| UPermit (r : res)
| UUsers (r : res)
(* Object::drop -> return_object *)
| RStart (o : obj)
| RLock (o : obj)
| RAdd
| RSurplus (o : obj)
| RDetach (o : obj)
(* Object::take -> detach_object *)
| TStart (o : obj)
| TLock (o : obj)
| TAdd (o : obj)
| TDetach (o : obj)
(* operations that are a single lock region *)
| OResize (n : nat)
| ORetain (ds : list bool)
| OClose
| OStatus
| ODropPool
(* the same operations stopped at the schedule point before their lock *)
| OResizeL (n : nat)
| ORetainS (ds : list bool)      (* retain, before the lock of its status() call *)
| ORetainL (ds : list bool)      (* retain, before its own lock *)
| OCloseL
| OStatusL
| PDone (r : res).

Inductive op :=
| OpGet (g : getk) | OpDrop (o : nat) | OpTake (o : nat) | OpResize (n : nat)
| OpRetain (ds : list bool) | OpClose | OpStatus | OpDropPool.

Inductive label :=
| Start (t : nat) (o : op)
| Step (t : nat)
| Env (t : nat) (r : outcome)
| Cancel (t : nat)
| Fire (t : nat)
| Mark (n : nat).

(* ghost events; the harness logs the same events on the implementation side *)
Inductive event :=
| ECreateCall (t : nat)
| ERecycleCall (o : obj) (t : nat)
| EHookCall (kind : nat) (k : nat) (o : obj)   (* kind 0 pre, 2 post, 4 post_create *)
| EDetach (o : nat) (t : nat)
| EDestroy (o : nat) (t : nat)
| EHandOut (o : obj) (t : nat)
| ERetainSee (o : obj)
| ERetainResult (kept removed : nat)
| ERemoved (o : nat) (t : nat)
| EStatus (m s a w : Z)
| ECreated (o : nat) (t : nat).

Record state := {
  permits : Z; closed : bool; queue : list nat;          (* tokio semaphore *)
  vec : list obj; size : Z; maxs : Z; debt : Z;          (* Slots *)
  users : Z;
  tasks : list pc;
  out : list obj;                                        (* objects in callers' hands *)
  alive : bool;                                          (* a Pool handle exists *)
  clock : nat; next_oid : nat;
  log : list event                                       (* newest first *)
}.

Definition init (c : cfg) : state :=
  {| permits := Z.of_nat (max0 c); closed := false; queue := [];
     vec := []; size := 0; maxs := Z.of_nat (max0 c); debt := 0; users := 0;
     tasks := []; out := []; alive := true; clock := 0; next_oid := 0; log := [] |}.

(* ------------------------------------------------------------------ setters *)
Definition set_permits (s : state) (v : Z) : state :=
  {| permits := v; closed := closed s; queue := queue s; vec := vec s; size := size s;
     maxs := maxs s; debt := debt s; users := users s; tasks := tasks s; out := out s;
     alive := alive s; clock := clock s; next_oid := next_oid s; log := log s |}.
Definition set_closed (s : state) (v : bool) : state :=
  {| permits := permits s; closed := v; queue := queue s; vec := vec s; size := size s;
     maxs := maxs s; debt := debt s; users := users s; tasks := tasks s; out := out s;
     alive := alive s; clock := clock s; next_oid := next_oid s; log := log s |}.
Definition set_queue (s : state) (v : list nat) : state :=
  {| permits := permits s; closed := closed s; queue := v; vec := vec s; size := size s;
     maxs := maxs s; debt := debt s; users := users s; tasks := tasks s; out := out s;
     alive := alive s; clock := clock s; next_oid := next_oid s; log := log s |}.
Definition set_vec (s : state) (v : list obj) : state :=
  {| permits := permits s; closed := closed s; queue := queue s; vec := v; size := size s;
     maxs := maxs s; debt := debt s; users := users s; tasks := tasks s; out := out s;
     alive := alive s; clock := clock s; next_oid := next_oid s; log := log s |}.
Definition set_size (s : state) (v : Z) : state :=
  {| permits := permits s; closed := closed s; queue := queue s; vec := vec s; size := v;
     maxs := maxs s; debt := debt s; users := users s; tasks := tasks s; out := out s;
     alive := alive s; clock := clock s; next_oid := next_oid s; log := log s |}.
Definition set_maxs (s : state) (v : Z) : state :=
  {| permits := permits s; closed := closed s; queue := queue s; vec := vec s; size := size s;
     maxs := v; debt := debt s; users := users s; tasks := tasks s; out := out s;
     alive := alive s; clock := clock s; next_oid := next_oid s; log := log s |}.
Definition set_debt (s : state) (v : Z) : state :=
  {| permits := permits s; closed := closed s; queue := queue s; vec := vec s; size := size s;
     maxs := maxs s; debt := v; users := users s; tasks := tasks s; out := out s;
     alive := alive s; clock := clock s; next_oid := next_oid s; log := log s |}.
Definition set_users (s : state) (v : Z) : state :=
  {| permits := permits s; closed := closed s; queue := queue s; vec := vec s; size := size s;
     maxs := maxs s; debt := debt s; users := v; tasks := tasks s; out := out s;
     alive := alive s; clock := clock s; next_oid := next_oid s; log := log s |}.
Definition set_tasks (s : state) (v : list pc) : state :=
  {| permits := permits s; closed := closed s; queue := queue s; vec := vec s; size := size s;
     maxs := maxs s; debt := debt s; users := users s; tasks := v; out := out s;
     alive := alive s; clock := clock s; next_oid := next_oid s; log := log s |}.
Definition set_out (s : state) (v : list obj) : state :=
  {| permits := permits s; closed := closed s; queue := queue s; vec := vec s; size := size s;
     maxs := maxs s; debt := debt s; users := users s; tasks := tasks s; out := v;
     alive := alive s; clock := clock s; next_oid := next_oid s; log := log s |}.
Definition set_alive (s : state) (v : bool) : state :=
  {| permits := permits s; closed := closed s; queue := queue s; vec := vec s; size := size s;
     maxs := maxs s; debt := debt s; users := users s; tasks := tasks s; out := out s;
     alive := v; clock := clock s; next_oid := next_oid s; log := log s |}.
Definition set_clock (s : state) (v : nat) : state :=
  {| permits := permits s; closed := closed s; queue := queue s; vec := vec s; size := size s;
     maxs := maxs s; debt := debt s; users := users s; tasks := tasks s; out := out s;
     alive := alive s; clock := v; next_oid := next_oid s; log := log s |}.
Definition set_next_oid (s : state) (v : nat) : state :=
  {| permits := permits s; closed := closed s; queue := queue s; vec := vec s; size := size s;
     maxs := maxs s; debt := debt s; users := users s; tasks := tasks s; out := out s;
     alive := alive s; clock := clock s; next_oid := v; log := log s |}.
Definition set_log (s : state) (v : list event) : state :=
  {| permits := permits s; closed := closed s; queue := queue s; vec := vec s; size := size s;
     maxs := maxs s; debt := debt s; users := users s; tasks := tasks s; out := out s;
     alive := alive s; clock := clock s; next_oid := next_oid s; log := v |}.

Definition pcof (s : state) (t : nat) : pc := get PNone t (tasks s).
Definition setpc (s : state) (t : nat) (p : pc) : state := set_tasks s (upd PNone t p (tasks s)).
Definition emit (s : state) (e : event) : state := set_log s (e :: log s).

Fixpoint remove_nat (x : nat) (l : list nat) : list nat :=
  match l with
  | [] => []
  | y :: l' => if Nat.eqb x y then l' else y :: remove_nat x l'
  end.

Fixpoint remove_oid (x : nat) (l : list obj) : list obj :=
  match l with
  | [] => []
  | y :: l' => if Nat.eqb x (oid y) then l' else y :: remove_oid x l'
  end.

Fixpoint find_oid (x : nat) (l : list obj) : option obj :=
  match l with
  | [] => None
  | y :: l' => if Nat.eqb x (oid y) then Some y else find_oid x l'
  end.

(* ------------------------------------------------------------------ the semaphore *)
(* Semaphore::add_permits(1): the oldest waiter is served before the counter *)
Definition sem_add (s : state) : state :=
  match queue s with
  | [] => set_permits s (permits s + 1)
  | w :: q =>
      match pcof s w with
      | GWait g _ => setpc (set_queue s q) w (GWait g true)
      | _ => set_queue s q   (* unreachable: see the queue invariant *)
      end
  end.

Fixpoint sem_add_n (n : nat) (s : state) : state :=
  match n with O => s | S n' => sem_add_n n' (sem_add s) end.

(* ------------------------------------------------------------------ pieces of get *)
Definition is_async (hooks : list bool) (k : nat) : bool := nth k hooks false.

(* enter a stage of try_recycle: the hook / manager call is made and reaches its gate *)
Definition enter_stage (s : state) (t : nat) (g : getk) (o : obj) (st : stage) : state :=
  let e := match st with
           | SPre k => EHookCall 0 k o
           | SRecycle => ERecycleCall o t
           | SPost k => EHookCall 2 k o
           end in
  setpc (emit s e) t (GRec g o st).

Definition first_stage (c : cfg) : stage :=
  match pre c with [] => SRecycle | _ => SPre 0 end.

(* the object is ready: hand it to the caller *)
Definition bump (o : obj) : obj :=
  {| oid := oid o; created := created o; recycled := recycled o; rcount := rcount o;
     since := since o; handed := S (handed o) |}.

Definition hand_out (s : state) (t : nat) (o : obj) : state :=
  setpc (emit (set_out s (bump o :: out s)) (EHandOut (bump o) t)) t (PDone ROk).

Definition recycled_obj (s : state) (o : obj) : obj :=
  {| oid := oid o; created := created o; recycled := Some (clock s); rcount := S (rcount o);
     since := since o; handed := handed o |}.

(* after stage [st] succeeded *)
Definition next_stage (c : cfg) (s : state) (t : nat) (g : getk) (o : obj) (st : stage) : state :=
  match st with
  | SPre k =>
      if Nat.ltb (S k) (length (pre c)) then enter_stage s t g o (SPre (S k))
      else enter_stage s t g o SRecycle
  | SRecycle =>
      match post c with
      | [] => hand_out s t (recycled_obj s o)
      | _ => enter_stage s t g o (SPost 0)
      end
  | SPost k =>
      if Nat.ltb (S k) (length (post c)) then enter_stage s t g o (SPost (S k))
      else hand_out s t (recycled_obj s o)
  end.

Definition enter_postc (s : state) (t : nat) (g : getk) (o : obj) (k : nat) : state :=
  setpc (emit s (EHookCall 4 k o)) t (GPostC g o k).

Definition stage_async (c : cfg) (st : stage) : bool :=
  match st with
  | SPre k => is_async (pre c) k
  | SRecycle => true
  | SPost k => is_async (post c) k
  end.

Definition pop_idle (c : cfg) (v : list obj) : option (obj * list obj) :=
  if lifo c then
    match rev v with
    | [] => None
    | o :: r => Some (o, rev r)
    end
  else
    match v with
    | [] => None
    | o :: r => Some (o, r)
    end.

(* ------------------------------------------------------------------ resize *)
(* release surplus idle objects: while size > max_size pop the front, detach, destroy *)
Fixpoint shrink_idle (t : nat) (fuel : nat) (s : state) : state :=
  match fuel with
  | O => s
  | S f =>
      if Z.ltb (maxs s) (size s) then
        match vec s with
        | [] => s
        | o :: r =>
            shrink_idle t f
              (emit (emit (set_size (set_vec s r) (size s - 1)) (EDetach (oid o) t))
                    (EDestroy (oid o) t))
        end
      else s
  end.

(* Pool::resize_locked *)
Definition resize_locked (s : state) (t : nat) (n : Z) : state :=
  let old := maxs s in
  let s0 := set_maxs s n in
  let s1 := shrink_idle t (length (vec s0)) s0 in
  if Z.ltb n old then
    let want := old - n in
    let free := if closed s1 then 0 else Z.min (permits s1) want in
    set_debt (set_permits s1 (permits s1 - free)) (debt s1 + (want - free))
  else if Z.ltb old n then
    let add := n - old in
    let cancelled := Z.min add (debt s1) in
    sem_add_n (Z.to_nat (add - cancelled)) (set_debt s1 (debt s1 - cancelled))
  else s1.

(* ------------------------------------------------------------------ retain *)
(* returns the state (vec, log updated) and the removed objects in order *)
Fixpoint retain_loop (t : nat) (ds : list bool) (v : list obj) (s : state)
  : state * list obj * list obj :=
  match v with
  | [] => (s, [], [])
  | o :: r =>
      let keep := match ds with [] => true | d :: _ => d end in
      let ds' := match ds with [] => [] | _ :: r' => r' end in
      let s1 := emit s (ERetainSee o) in
      if keep then
        let '(s2, kept, removed) := retain_loop t ds' r s1 in (s2, o :: kept, removed)
      else
        let '(s2, kept, removed) := retain_loop t ds' r (emit s1 (EDetach (oid o) t)) in
        (s2, kept, o :: removed)
  end.

Fixpoint emit_removed (t : nat) (l : list obj) (s : state) : state :=
  match l with
  | [] => s
  | o :: r => emit_removed t r (emit s (ERemoved (oid o) t))
  end.

Fixpoint emit_destroyed (t : nat) (l : list obj) (s : state) : state :=
  match l with
  | [] => s
  | o :: r => emit_destroyed t r (emit s (EDestroy (oid o) t))
  end.

Definition all_done (l : list pc) : bool :=
  forallb (fun p => match p with PDone _ => true | _ => false end) l.

(* ------------------------------------------------------------------ Start *)
Definition start (c : cfg) (s : state) (t : nat) (o : op) : option state :=
  if negb (Nat.eqb t (length (tasks s))) then None else
  match o with
  | OpGet g => if alive s then Some (setpc s t (GStart g)) else None
  | OpDrop x =>
      match find_oid x (out s) with
      | Some ob => Some (setpc (set_out s (remove_oid x (out s))) t (RStart ob))
      | None => None
      end
  | OpTake x =>
      match find_oid x (out s) with
      | Some ob => Some (setpc (set_out s (remove_oid x (out s))) t (TStart ob))
      | None => None
      end
  | OpResize n => if alive s then Some (setpc s t (OResize n)) else None
  | OpRetain ds => if alive s then Some (setpc s t (ORetain ds)) else None
  | OpClose => if alive s then Some (setpc s t OClose) else None
  | OpStatus => if alive s then Some (setpc s t OStatus) else None
  | OpDropPool =>
      if alive s && all_done (tasks s) then Some (setpc (set_alive s false) t ODropPool)
      else None
  end.

(* the object as it is put into the idle queue: stamped with the current logical time *)
Definition idle_at (s : state) (o : obj) : obj :=
  {| oid := oid o; created := created o; recycled := recycled o; rcount := rcount o; since := clock s;
     handed := handed o |}.

(* ------------------------------------------------------------------ Step *)
(* the acquire attempt at "get.acquire" / "get.reacquire" *)
Definition acquire (c : cfg) (s : state) (t : nat) (g : getk) : state :=
  match gw g with
  | TZero =>
      if closed s then setpc s t (UUsers RClosed)
      else if Z.ltb 0 (permits s) then setpc (set_permits s (permits s - 1)) t (GSettle g)
      else setpc s t (UUsers RTimeoutWait)
  | w =>
      if (match w with TFin => negb (runtime c) | _ => false end)
      then setpc s t (UUsers RNoRuntime)
      else if closed s then setpc s t (UUsers RClosed)
      else if Z.ltb 0 (permits s) then setpc (set_permits s (permits s - 1)) t (GSettle g)
      else setpc (set_queue s (queue s ++ [t])) t (GWait g false)
  end.

(* Pool::status: available = idle objects; waiting = users - (size - idle), saturating *)
Definition status_event (s : state) : event :=
  let av := Z.of_nat (length (vec s)) in
  EStatus (maxs s) (size s) av (Z.max 0 (users s - Z.max 0 (size s - av))).

Definition step_task (c : cfg) (s : state) (t : nat) : option state :=
  match pcof s t with
  | GStart g =>
      match gr g with
      | TNone => Some (setpc (set_users s (users s + 1)) t (GAcq g))
      | _ =>
          if runtime c then Some (setpc (set_users s (users s + 1)) t (GAcq g))
          else Some (setpc s t (PDone RNoRuntime))
      end
  | GAcq g => Some (acquire c s t g)
  | GWait g a =>
      if closed s then
        (* a closed semaphore fails the poll; an assigned permit goes back to the counter *)
        Some (setpc (if a then set_permits s (permits s + 1) else s) t (UUsers RClosed))
      else if a then Some (setpc s t (GSettle g))
      else Some s
  | GSettle g =>
      if Z.ltb 0 (debt s) then Some (setpc (set_debt s (debt s - 1)) t (GAcq g))
      else Some (setpc s t (GPop g))
  | GPop g =>
      match pop_idle c (vec s) with
      | Some (o, r) => Some (enter_stage (set_vec s r) t g o (first_stage c))
      | None =>
          match gc g with
          | TNone => Some (setpc (emit s (ECreateCall t)) t (GCreate g))
          | _ =>
              if runtime c then Some (setpc (emit s (ECreateCall t)) t (GCreate g))
              else Some (setpc s t (UPermit RNoRuntime))
          end
      end
  | GCreated g o =>
      let s1 := set_size s (size s + 1) in
      match pcr c with
      | [] => Some (hand_out s1 t o)
      | _ => Some (enter_postc s1 t g o 0)
      end
  | UUnready g o k => Some (setpc (set_size s (size s - 1)) t (UDetach g o k))
  | UDetach g o k =>
      let s1 := emit (emit s (EDetach (oid o) t)) (EDestroy (oid o) t) in
      match k with
      | CLoop => Some (setpc s1 t (GPop g))
      | CRes r => Some (setpc s1 t (UPermit r))
      end
  | UPermit r => Some (setpc (sem_add s) t (UUsers r))
  | UUsers r => Some (setpc (set_users s (users s - 1)) t (PDone r))
  | RStart o =>
      if alive s then Some (setpc (set_users s (users s - 1)) t (RLock o))
      else Some (setpc (emit s (EDestroy (oid o) t)) t (PDone RUnit))
  | RLock o =>
      if Z.leb (size s) (maxs s) then Some (setpc (set_vec s (vec s ++ [idle_at s o])) t RAdd)
      else Some (setpc (set_size s (size s - 1)) t (RSurplus o))
  | RAdd => Some (setpc (sem_add s) t (PDone RUnit))
  | RSurplus o => Some (setpc (sem_add s) t (RDetach o))
  | RDetach o =>
      Some (setpc (emit (emit s (EDetach (oid o) t)) (EDestroy (oid o) t)) t (PDone RUnit))
  | TStart o =>
      if alive s then Some (setpc (set_users s (users s - 1)) t (TLock o))
      else Some (setpc (emit s (ERemoved (oid o) t)) t (PDone RUnit))
  | TLock o => Some (setpc (set_size s (size s - 1)) t (TAdd o))
  | TAdd o => Some (setpc (sem_add s) t (TDetach o))
  | TDetach o =>
      Some (setpc (emit (emit s (EDetach (oid o) t)) (ERemoved (oid o) t)) t (PDone RUnit))
  | OResize n => Some (setpc s t (OResizeL n))
  | OClose => Some (setpc s t OCloseL)
  | OStatus => Some (setpc s t OStatusL)
  | ORetain ds => Some (setpc s t (ORetainS ds))
  | ORetainS ds => Some (setpc s t (ORetainL ds))
  | OResizeL n =>
      if closed s then Some (setpc s t (PDone RUnit))
      else Some (setpc (resize_locked s t (Z.of_nat n)) t (PDone RUnit))
  | OCloseL =>
      Some (setpc (resize_locked (set_queue (set_closed s true) []) t 0) t (PDone RUnit))
  | ORetainL ds =>
      let '(s1, kept, removed) := retain_loop t ds (vec s) s in
      let s2 := set_size (set_vec s1 kept) (size s1 - Z.of_nat (length removed)) in
      let s3 := emit s2 (ERetainResult (length kept) (length removed)) in
      Some (setpc (emit_removed t removed s3) t (PDone RUnit))
  | OStatusL => Some (setpc (emit s (status_event s)) t (PDone RUnit))
  | ODropPool =>
      Some (setpc (emit_destroyed t (vec s) (set_vec (set_alive s false) [])) t (PDone RUnit))
  | _ => None
  end.

(* ------------------------------------------------------------------ Env / Cancel / Fire *)
Definition new_obj (s : state) : obj :=
  {| oid := next_oid s; created := clock s; recycled := None; rcount := 0; since := 0; handed := 0 |}.

Definition env_task (c : cfg) (s : state) (t : nat) (r : outcome) : option state :=
  match pcof s t with
  | GRec g o st =>
      match r with
      | OOk => Some (next_stage c s t g o st)
      | OErr => Some (setpc s t (UUnready g o CLoop))
      | OPanic => Some (setpc s t (UUnready g o (CRes RPanicked)))
      end
  | GCreate g =>
      match r with
      | OOk =>
          let o := new_obj s in
          Some (setpc (emit (set_next_oid s (S (next_oid s))) (ECreated (oid o) t)) t (GCreated g o))
      | OErr => Some (setpc s t (UPermit RBackend))
      | OPanic => Some (setpc s t (UPermit RPanicked))
      end
  | GPostC g o k =>
      match r with
      | OOk =>
          if Nat.ltb (S k) (length (pcr c)) then Some (enter_postc s t g o (S k))
          else Some (hand_out s t o)
      | OErr => Some (setpc s t (UUnready g o (CRes RPostCreate)))
      | OPanic => Some (setpc s t (UUnready g o (CRes RPanicked)))
      end
  | _ => None
  end.

(* leave the wait queue (Acquire::drop): an assigned permit is passed on *)
Definition leave_wait (s : state) (t : nat) (a : bool) : state :=
  if a then sem_add s else set_queue s (remove_nat t (queue s)).

Definition cancel_task (c : cfg) (s : state) (t : nat) : option state :=
  match pcof s t with
  | GWait g a => Some (setpc (leave_wait s t a) t (UUsers RCancelled))
  | GRec g o st =>
      if stage_async c st then Some (setpc s t (UUnready g o (CRes RCancelled))) else None
  | GCreate g => Some (setpc s t (UPermit RCancelled))
  | GPostC g o k =>
      if is_async (pcr c) k then Some (setpc s t (UUnready g o (CRes RCancelled))) else None
  | _ => None
  end.

Definition timed (x : tmo) : bool := match x with TNone => false | _ => true end.

(* the deadline of the timed section the task is in passes (needs a runtime) *)
Definition fire_task (c : cfg) (s : state) (t : nat) : option state :=
  if negb (runtime c) then None else
  match pcof s t with
  | GWait g a =>
      match gw g with
      | TFin => Some (setpc (leave_wait s t a) t (UUsers RTimeoutWait))
      | _ => None
      end
  | GRec g o SRecycle =>
      if timed (gr g) then Some (setpc s t (UUnready g o CLoop)) else None
  | GCreate g =>
      if timed (gc g) then Some (setpc s t (UPermit RTimeoutCreate)) else None
  | _ => None
  end.

Definition tick (s : state) : state := set_clock s (S (clock s)).

Definition step (c : cfg) (s : state) (l : label) : option state :=
  match l with
  | Start t o => option_map tick (start c s t o)
  | Step t => option_map tick (step_task c s t)
  | Env t r => option_map tick (env_task c s t r)
  | Cancel t => option_map tick (cancel_task c s t)
  | Fire t => option_map tick (fire_task c s t)
  | Mark _ => Some s
  end.

Fixpoint run (c : cfg) (s : state) (tr : list label) : option state :=
  match tr with
  | [] => Some s
  | l :: tr' => match step c s l with Some s' => run c s' tr' | None => None end
  end.

Definition Reachable (c : cfg) (s : state) : Prop := exists tr, run c (init c) tr = Some s.
