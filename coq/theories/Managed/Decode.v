(* Decoding of the harness' integer encoding of configurations and labels. *)
From Coq Require Import List ZArith Lia Bool Arith.
From DP Require Import Common.Tab Managed.Model Managed.Obs.
Import ListNotations.
Open Scope Z_scope.

Definition zn (z : Z) : nat := Z.to_nat z.
Definition nthz (l : list Z) (i : nat) : Z := nth i l 0.

Fixpoint bits_of (b : Z) (n : nat) : list bool :=
  match n with
  | O => []
  | S n' => Z.odd b :: bits_of (Z.div2 b) n'
  end.

Definition dec_tmo (z : Z) : tmo :=
  if Z.eqb z 0 then TNone else if Z.eqb z 1 then TZero else TFin.

Definition dec_getk (a : Z) : getk :=
  {| gw := dec_tmo (a mod 3); gc := dec_tmo ((a / 3) mod 3); gr := dec_tmo ((a / 9) mod 3) |}.

(* cfg = [max; lifo; pre bits; pre n; post bits; post n; pc bits; pc n; runtime?] *)
Definition dec_cfg (l : list Z) : cfg :=
  {| max0 := zn (nthz l 0); lifo := negb (Z.eqb (nthz l 1) 0);
     pre := bits_of (nthz l 2) (zn (nthz l 3));
     post := bits_of (nthz l 4) (zn (nthz l 5));
     pcr := bits_of (nthz l 6) (zn (nthz l 7));
     runtime := negb (Z.eqb (nthz l 8) 0) |}.

Definition dec_op (k a b : Z) : op :=
  if Z.eqb k 0 then OpGet (dec_getk a)
  else if Z.eqb k 1 then OpDrop (zn a)
  else if Z.eqb k 2 then OpTake (zn a)
  else if Z.eqb k 3 then OpResize (zn a)
  else if Z.eqb k 4 then OpRetain (bits_of a (zn b))
  else if Z.eqb k 5 then OpClose
  else if Z.eqb k 6 then OpStatus
  else OpDropPool.

Definition dec_outcome (z : Z) : outcome :=
  if Z.eqb z 0 then OOk else if Z.eqb z 1 then OErr else OPanic.

(* label = [kind; t; a; b; c] *)
Definition dec_label (l : list Z) : label :=
  let k := nthz l 0 in
  let t := zn (nthz l 1) in
  if Z.eqb k 0 then Start t (dec_op (nthz l 2) (nthz l 3) (nthz l 4))
  else if Z.eqb k 1 then Step t
  else if Z.eqb k 2 then Env t (dec_outcome (nthz l 2))
  else if Z.eqb k 3 then Cancel t
  else if Z.eqb k 5 then Fire t
  else Mark t.

Definition run_case_z (x : list Z * list (list Z)) : list Z :=
  run_case (dec_cfg (fst x), map dec_label (snd x)).

Definition diff_case_z (x : list Z * list (list Z) * list (list Z)) : Z :=
  let '(c, ls, os) := x in
  first_diff (dec_cfg c) (init (dec_cfg c)) (map dec_label ls) os 0.

(* task-level (virtual clock) cases *)
From DP Require Import Managed.Macro.
Definition run_case_macro_z (x : list Z * list (list Z)) : list Z :=
  run_obs_macro (dec_cfg (fst x)) (init (dec_cfg (fst x))) (map dec_label (snd x)).
Definition diff_case_macro_z (x : list Z * list (list Z) * list (list Z)) : Z :=
  let '(c, ls, os) := x in
  first_diff_macro (dec_cfg c) (init (dec_cfg c)) (map dec_label ls) os 0.
