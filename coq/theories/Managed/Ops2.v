(* Further operational facts: waking, close, resize bounds, status(). *)
From Coq Require Import List ZArith Lia Bool Arith.
From DP Require Import Common.Tab Managed.Model Managed.Contrib Managed.Simp Managed.InvQ
  Managed.Effects Managed.StepCases Managed.Frame Managed.InvG Managed.InvClose Managed.InvW
  Managed.Others Managed.All Managed.Ops.
Import ListNotations.
Open Scope Z_scope.

(* ---------------------------------------------------------------- waking *)
(* a released permit goes to the oldest waiter, who is then no longer queued *)
Lemma release_wakes s w q :
  GQ s -> queue s = w :: q ->
  exists g, pcof s w = GWait g false /\ pcof (sem_add s) w = GWait g true /\ queue (sem_add s) = q
            /\ permits (sem_add s) = permits s.
Proof.
  intros G Eq. destruct (sem_add_cases s G) as [[E _]|(w' & q' & g & E & Hw & Hp & Es)].
  - rewrite E in Eq. discriminate Eq.
  - rewrite E in Eq. inversion Eq; subst. exists g. rewrite Es. sp.
    splits; try reflexivity; [exact Hw|apply pcof_setpc_same].
Qed.

(* with no waiter the permit becomes free *)
Lemma release_frees s : queue s = [] -> sem_add s = set_permits s (permits s + 1).
Proof. intros E. unfold sem_add. rewrite E. reflexivity. Qed.

(* an assigned waiter proceeds at its next poll *)
Lemma woken_proceeds c s t g :
  pcof s t = GWait g true -> closed s = false ->
  step c s (Step t) = Some (tick (setpc s t (GSettle g))).
Proof. intros Hpc Hc. cbn [step]. unfold step_task. rewrite Hpc, Hc. reflexivity. Qed.

(* on a closed pool every waiter - assigned or not - fails with Closed at its next poll *)
Lemma waiter_closed c s t g a :
  pcof s t = GWait g a -> closed s = true ->
  exists s', step c s (Step t) = Some s' /\ pcof s' t = UUsers RClosed
             /\ unwind_len (pcof s' t) = Some (1%nat, RClosed).
Proof.
  intros Hpc Hc. cbn [step]. unfold step_task. rewrite Hpc, Hc. cbn [option_map].
  eexists. split; [reflexivity|]. rewrite pcof_tick, pcof_setpc_same. split; reflexivity.
Qed.

(* an unassigned waiter that is polled spuriously stays exactly where it is *)
Lemma spurious_poll c s t g :
  pcof s t = GWait g false -> closed s = false -> step c s (Step t) = Some (tick s).
Proof. intros Hpc Hc. cbn [step]. unfold step_task. rewrite Hpc, Hc. reflexivity. Qed.

(* ---------------------------------------------------------------- close / return *)
(* an object that comes back to a closed pool is discarded, never kept *)
Lemma return_after_close c s t o :
  Inv s -> alive s = true -> closed s = true -> pcof s t = RLock o ->
  step c s (Step t) = Some (tick (setpc (set_size s (size s - 1)) t (RSurplus o))).
Proof.
  intros [Q A K W] Ha Hc Hpc. cbn [step]. unfold step_task. rewrite Hpc.
  destruct (K Ha) as [K1 K2]. specialize (K1 Hc).
  pose proof (a_size _ A Ha) as Hs.
  pose proof (sum_ge_get PNone cs t (tasks s) eq_refl cs_nonneg) as Hg.
  unfold pcof in Hpc. rewrite Hpc in Hg. cbn [cs] in Hg.
  pose proof (zlen_nonneg (vec s)). pose proof (zlen_nonneg (out s)).
  destruct (Z.leb (size s) (maxs s)) eqn:E; [apply Z.leb_le in E; lia|reflexivity].
Qed.

(* surplus on return: above the limit the object is discarded *)
Lemma return_surplus c s t o :
  pcof s t = RLock o -> maxs s < size s ->
  step c s (Step t) = Some (tick (setpc (set_size s (size s - 1)) t (RSurplus o))).
Proof.
  intros Hpc Hlt. cbn [step]. unfold step_task. rewrite Hpc.
  destruct (Z.leb (size s) (maxs s)) eqn:E; [apply Z.leb_le in E; lia|reflexivity].
Qed.

Lemma return_keeps c s t o :
  pcof s t = RLock o -> size s <= maxs s ->
  step c s (Step t) = Some (tick (setpc (set_vec s (vec s ++ [idle_at s o])) t RAdd)).
Proof.
  intros Hpc Hle. cbn [step]. unfold step_task. rewrite Hpc.
  destruct (Z.leb (size s) (maxs s)) eqn:E; [reflexivity|apply Z.leb_gt in E; lia].
Qed.

(* objects that outlive every pool handle are only destroyed / handed over *)
Lemma orphan_drop c s t o :
  pcof s t = RStart o -> alive s = false ->
  step c s (Step t) = Some (tick (setpc (emit s (EDestroy (oid o) t)) t (PDone RUnit))).
Proof. intros Hpc Ha. cbn [step]. unfold step_task. rewrite Hpc, Ha. reflexivity. Qed.

Lemma orphan_take c s t o :
  pcof s t = TStart o -> alive s = false ->
  step c s (Step t) = Some (tick (setpc (emit s (ERemoved (oid o) t)) t (PDone RUnit))).
Proof. intros Hpc Ha. cbn [step]. unfold step_task. rewrite Hpc, Ha. reflexivity. Qed.

(* resize on a closed pool is the identity on the pool *)
Lemma resize_closed c s t n :
  pcof s t = OResizeL n -> closed s = true ->
  step c s (Step t) = Some (tick (setpc s t (PDone RUnit))).
Proof. intros Hpc Hc. cbn [step]. unfold step_task. rewrite Hpc, Hc. reflexivity. Qed.

(* ---------------------------------------------------------------- resize *)
Lemma resize_open c s t n :
  pcof s t = OResizeL n -> closed s = false ->
  step c s (Step t) = Some (tick (setpc (resize_locked s t (Z.of_nat n)) t (PDone RUnit))).
Proof. intros Hpc Hc. cbn [step]. unfold step_task. rewrite Hpc, Hc. reflexivity. Qed.

(* entry ("grant") of a get: the step from get.settle to get.pop *)
Lemma grant_bound s t g :
  Inv s -> alive s = true -> pcof s t = GSettle g -> debt s = 0 ->
  zlen (out s) + 1 <= maxs s /\ sum hp (tasks s) + zlen (out s) <= maxs s.
Proof.
  intros [Q A K W] Ha Hpc Hd.
  pose proof (a_perm _ A Ha) as H1. pose proof (q_pnn _ Q).
  pose proof (sum_ge_get PNone hp t (tasks s) eq_refl hp_nonneg) as Hg.
  unfold pcof in Hpc. rewrite Hpc in Hg. cbn [hp] in Hg. lia.
Qed.

(* commit to create: when a granted get finds no idle object the new object fits into
   max_size + debt; with no debt (no shrink since the grant) it fits into max_size *)
Lemma commit_bound c s t g s' :
  Inv s -> alive s = true -> pcof s t = GPop g -> vec s = [] ->
  step c s (Step t) = Some s' ->
  live s' <= maxs s' + debt s' /\ maxs s' = maxs s /\ debt s' = debt s.
Proof.
  intros [Q A K W] Ha Hpc Hv H.
  cbn [step] in H. unfold step_task in H. rewrite Hpc, Hv in H.
  assert (Hp : pop_idle c [] = None) by apply pop_idle_nil. rewrite Hp in H.
  pose proof (a_perm _ A Ha) as H1. pose proof (q_pnn _ Q) as Hnn.
  pose proof (sum_le_except PNone ell hp t (tasks s) eq_refl eq_refl ell_le_hp) as Hex.
  unfold pcof in Hpc. rewrite Hpc in Hex. cbn [ell hp] in Hex.
  pose proof (sum_nonneg ell (tasks s) ell_nonneg).
  destruct (gc g); [|destruct (runtime c)..]; cbn [option_map] in H; inversion H; subst;
    unfold live; sp; rewrite (sum_upd PNone) by reflexivity; rewrite Hpc, Hv; cbn [ell zlen length Z.of_nat];
    splits; try reflexivity; lia.
Qed.

(* debt is only created by resize / close *)
Definition is_rc_pc (p : pc) : bool :=
  match p with OResize _ | OClose | OResizeL _ | OCloseL => true | _ => false end.

Lemma debt_only_grows_by_resize c s l s' :
  step c s l = Some s' ->
  (forall t, l = Step t -> is_rc_pc (pcof s t) = false) -> debt s' <= debt s.
Proof.
  intros H Hl.
  step_leaves H; sp; autorewrite with fld; sp; try lia;
    try match goal with E : pcof s ?t = OResizeL _ |- _ => specialize (Hl t eq_refl); rewrite E in Hl; discriminate Hl end;
    try match goal with E : pcof s ?t = OCloseL |- _ => specialize (Hl t eq_refl); rewrite E in Hl; discriminate Hl end.
  all: try match goal with E : retain_loop ?t ?ds ?v ?s0 = (?s1, _, _) |- _ =>
             pose proof (retain_loop_effect t ds v s0) as R; rewrite E in R;
             destruct R as (R1&R2&R3&R4&R5&R6&R7&R8&R9&R10&R11&R12&R13&R14); lia end.
  all: try (apply Z.ltb_lt in Heqb; lia).
Qed.

(* ---------------------------------------------------------------- status() *)
Definition waiting_or_done (p : pc) : bool :=
  match p with PDone _ | GWait _ false => true | _ => false end.

Definition nwait (p : pc) : Z := match p with GWait _ _ => 1 | _ => 0 end.

(* "no pool operation in progress": every task is finished or is a caller blocked in get() *)
Definition quiescent (s : state) : Prop := forallb waiting_or_done (tasks s) = true.

Lemma quiescent_sums l :
  forallb waiting_or_done l = true ->
  sum hp l = 0 /\ sum cs l = 0 /\ sum up l = sum nwait l.
Proof.
  induction l as [|p l IH]; cbn [forallb sum]; [repeat split|].
  intros H. apply andb_prop in H. destruct H as [Hp Hl]. destruct (IH Hl) as (I1&I2&I3).
  destruct p as [|g|g|g []|g|g|g o st|g|g o|g o k|g o k|g o k|r0|r0|o|o| |o|o|o|o|o|o|n0|ds| | | |n|ds|ds| | |r0];
    try discriminate Hp; cbn [hp cs up nwait]; repeat split; lia.
Qed.

(* status() at rest: max_size, objects that exist (idle + checked out), idle, blocked callers *)
Lemma status_at_rest s :
  Inv s -> alive s = true -> quiescent s ->
  status_event s = EStatus (maxs s) (zlen (vec s) + zlen (out s)) (zlen (vec s)) (sum nwait (tasks s)).
Proof.
  intros [Q A K W] Ha Hq. destruct (quiescent_sums _ Hq) as (S1&S2&S3).
  pose proof (a_size _ A Ha) as H2. pose proof (a_users _ A Ha) as H3.
  unfold status_event. cbv zeta. fold (zlen (vec s)).
  pose proof (zlen_nonneg (vec s)). pose proof (zlen_nonneg (out s)).
  pose proof (sum_nonneg nwait (tasks s) (fun p => match p with GWait _ _ => Z.le_0_1 | _ => Z.le_refl 0 end)) as Hn.
  f_equal; lia.
Qed.

Lemma up_cs_inget p : up p - cs p <= inget p.
Proof. destruct p; cbn; lia. Qed.

(* status() while operations are in progress stays plausible *)
Lemma status_plausible s m z a w :
  Inv s -> alive s = true -> status_event s = EStatus m z a w ->
  m = maxs s
  /\ z = zlen (vec s) + zlen (out s) + sum cs (tasks s)        (* never more than what exists *)
  /\ a = zlen (vec s) /\ 0 <= a <= z                            (* available <= size *)
  /\ 0 <= w <= sum inget (tasks s)                              (* waiting <= callers inside get *)
  /\ 0 <= m /\ 0 <= z.                                          (* nothing wraps around *)
Proof.
  intros I Ha H. destruct (no_underflow s I Ha) as (N1&N2&N3&N4&N5&N6).
  destruct I as [Q A K W].
  pose proof (a_size _ A Ha) as H2. pose proof (a_users _ A Ha) as H3.
  unfold status_event in H. cbv zeta in H. fold (zlen (vec s)) in H. inversion H; subst.
  pose proof (zlen_nonneg (vec s)). pose proof (zlen_nonneg (out s)).
  pose proof (sum_nonneg cs (tasks s) cs_nonneg).
  pose proof (sum_nonneg inget (tasks s) (fun p => ltac:(destruct p; cbn; lia))) as Hi.
  assert (Hd : sum up (tasks s) - sum cs (tasks s) <= sum inget (tasks s)).
  { rewrite <- sum_minus. apply sum_le. apply up_cs_inget. }
  splits; try reflexivity; try lia.
Qed.
