(* Decoders from the harness' integer encoding into the model's types. A case is
   (cfg row, list of input rows); every row is a flat list of integers:
     str = len b1..blen        option X = 0 | 1 X        list X = n X1..Xn
     dur = secs nanos          bool / enum = code
   Definitions only. *)
From Coq Require Import List ZArith Bool.
From DP Require Import Config.Base Config.PgConfig Config.RedisConfig Config.Serde.
Import ListNotations.
Open Scope Z_scope.

Definition P (A : Type) := list Z -> A * list Z.

Definition ret {A} (x : A) : P A := fun l => (x, l).
Definition bindP {A B} (p : P A) (f : A -> P B) : P B :=
  fun l => let (x, r) := p l in f x r.
Notation "x <- p ;; q" := (bindP p (fun x => q)) (at level 61, p at next level, right associativity).

Definition rd_int : P Z := fun l => match l with x :: r => (x, r) | [] => (0, []) end.
Definition rd_bool : P bool := b <- rd_int ;; ret (negb (b =? 0)).

Fixpoint take (n : nat) (l : list Z) : list Z * list Z :=
  match n, l with
  | S n', x :: r => let (a, b) := take n' r in (x :: a, b)
  | _, _ => ([], l)
  end.

Definition rd_str : P str := n <- rd_int ;; take (Z.to_nat n).

Definition rd_opt {A} (p : P A) : P (option A) :=
  t <- rd_int ;; if t =? 0 then ret None else (x <- p ;; ret (Some x)).

Fixpoint rd_rep {A} (p : P A) (n : nat) : P (list A) :=
  match n with
  | O => ret []
  | S n' => x <- p ;; xs <- rd_rep p n' ;; ret (x :: xs)
  end.

Definition rd_list {A} (p : P A) : P (list A) := n <- rd_int ;; rd_rep p (Z.to_nat n).

Definition rd_dur : P dur := s <- rd_int ;; n <- rd_int ;; ret {| secs := s; nanos := n |}.

Definition rd_queue_mode : P queue_mode := c <- rd_int ;; ret (if c =? 0 then Fifo else Lifo).

Definition rd_timeouts : P timeouts :=
  w <- rd_opt rd_dur ;; c <- rd_opt rd_dur ;; r <- rd_opt rd_dur ;;
  ret {| t_wait := w; t_create := c; t_recycle := r |}.

Definition rd_pool : P pool_cfg :=
  n <- rd_int ;; t <- rd_timeouts ;; q <- rd_queue_mode ;;
  ret {| p_max_size := n; p_timeouts := t; p_queue_mode := q |}.

(* ---------------------------------------------------------------- Postgres *)
Definition dec_ssl (c : Z) : ssl_mode := if c =? 0 then SslDisable else if c =? 1 then SslPrefer else SslRequire.
Definition dec_tsa (c : Z) : target_session_attrs := if c =? 0 then TsaAny else TsaReadWrite.
Definition dec_cb (c : Z) : channel_binding := if c =? 0 then CbDisable else if c =? 1 then CbPrefer else CbRequire.
Definition dec_lb (c : Z) : load_balance_hosts := if c =? 0 then LbDisable else LbRandom.
Definition dec_pg_ssl (c : Z) : pg_ssl_mode := if c =? 0 then PgSslDisable else if c =? 1 then PgSslPrefer else PgSslRequire.
Definition dec_pg_neg (c : Z) : pg_ssl_negotiation := if c =? 0 then PgNegPostgres else PgNegDirect.
Definition dec_pg_tsa (c : Z) : pg_target_session_attrs :=
  if c =? 0 then PgTsaAny else if c =? 1 then PgTsaReadWrite else PgTsaReadOnly.
Definition dec_pg_cb (c : Z) : pg_channel_binding := if c =? 0 then PgCbDisable else if c =? 1 then PgCbPrefer else PgCbRequire.
Definition dec_pg_lb (c : Z) : pg_load_balance_hosts := if c =? 0 then PgLbDisable else PgLbRandom.

Definition rd_manager : P manager_cfg :=
  c <- rd_int ;; s <- rd_str ;;
  ret {| m_recycling_method :=
           if c =? 0 then RmFast else if c =? 1 then RmVerified else if c =? 2 then RmClean else RmCustom s |}.

Definition rd_pg_cfg : P pg_cfg :=
  url <- rd_opt rd_str ;; user <- rd_opt rd_str ;; password <- rd_opt rd_str ;; dbname <- rd_opt rd_str ;;
  options <- rd_opt rd_str ;; app <- rd_opt rd_str ;; ssl <- rd_opt rd_int ;;
  host <- rd_opt rd_str ;; hosts <- rd_opt (rd_list rd_str) ;;
  hostaddr <- rd_opt rd_str ;; hostaddrs <- rd_opt (rd_list rd_str) ;;
  port <- rd_opt rd_int ;; ports <- rd_opt (rd_list rd_int) ;;
  ct <- rd_opt rd_dur ;; ka <- rd_opt rd_bool ;; kai <- rd_opt rd_dur ;;
  tsa <- rd_opt rd_int ;; cb <- rd_opt rd_int ;; lb <- rd_opt rd_int ;;
  mgr <- rd_opt rd_manager ;; pool <- rd_opt rd_pool ;;
  ret {| c_url := url; c_user := user; c_password := password; c_dbname := dbname;
         c_options := options; c_application_name := app; c_ssl_mode := option_map dec_ssl ssl;
         c_host := host; c_hosts := hosts; c_hostaddr := hostaddr; c_hostaddrs := hostaddrs;
         c_port := port; c_ports := ports; c_connect_timeout := ct; c_keepalives := ka;
         c_keepalives_idle := kai; c_target_session_attrs := option_map dec_tsa tsa;
         c_channel_binding := option_map dec_cb cb; c_load_balance_hosts := option_map dec_lb lb;
         c_manager := mgr; c_pool := pool |}.

Definition rd_host : P host := k <- rd_int ;; s <- rd_str ;; ret (if k =? 0 then HTcp s else HUnix s).

Definition rd_pg_obs : P pg_obs :=
  user <- rd_opt rd_str ;; password <- rd_opt rd_str ;; dbname <- rd_opt rd_str ;;
  options <- rd_opt rd_str ;; app <- rd_opt rd_str ;; ssl <- rd_int ;;
  hosts <- rd_list rd_host ;; hostaddrs <- rd_list rd_str ;; ports <- rd_list rd_int ;;
  ct <- rd_opt rd_dur ;; ka <- rd_bool ;; kai <- rd_dur ;;
  tsa <- rd_int ;; cb <- rd_int ;; lb <- rd_int ;; neg <- rd_int ;;
  tut <- rd_opt rd_dur ;; kint <- rd_opt rd_dur ;; kret <- rd_opt rd_int ;;
  ret {| o_user := user; o_password := password; o_dbname := dbname; o_options := options;
         o_application_name := app; o_ssl_mode := dec_pg_ssl ssl; o_hosts := hosts;
         o_hostaddrs := hostaddrs; o_ports := ports; o_connect_timeout := ct; o_keepalives := ka;
         o_keepalives_idle := kai; o_target_session_attrs := dec_pg_tsa tsa;
         o_channel_binding := dec_pg_cb cb; o_load_balance_hosts := dec_pg_lb lb;
         o_ssl_negotiation := dec_pg_neg neg; o_tcp_user_timeout := tut;
         o_keepalives_interval := kint; o_keepalives_retries := kret |}.

(* ---------------------------------------------------------------- Redis *)
Definition rd_daddr : P connection_addr :=
  k <- rd_int ;;
  if k =? 0 then (h <- rd_str ;; p <- rd_int ;; ret (DTcp h p))
  else if k =? 1 then (h <- rd_str ;; p <- rd_int ;; i <- rd_bool ;; ret (DTcpTls h p i))
  else (s <- rd_str ;; ret (DUnix s)).

Definition rd_dredis : P redis_connection_info :=
  db <- rd_int ;; u <- rd_opt rd_str ;; pw <- rd_opt rd_str ;; pr <- rd_int ;;
  ret {| d_db := db; d_username := u; d_password := pw; d_protocol := if pr =? 0 then DRESP2 else DRESP3 |}.

Definition rd_dinfo : P connection_info :=
  a <- rd_daddr ;; r <- rd_dredis ;; ret {| d_addr := a; d_redis := r |}.

Definition rd_raddr : P r_addr :=
  k <- rd_int ;;
  if k =? 0 then (h <- rd_str ;; p <- rd_int ;; ret (RTcp h p))
  else if k =? 1 then (h <- rd_str ;; p <- rd_int ;; i <- rd_bool ;; t <- rd_bool ;; ret (RTcpTls h p i t))
  else (s <- rd_str ;; ret (RUnix s)).

Definition rd_rredis : P r_redis :=
  db <- rd_int ;; u <- rd_opt rd_str ;; pw <- rd_opt rd_str ;; pr <- rd_int ;;
  ret {| r_db := db; r_username := u; r_password := pw; r_protocol_of := if pr =? 0 then RRESP2 else RRESP3 |}.

Definition rd_rinfo : P r_info :=
  a <- rd_raddr ;; r <- rd_rredis ;; ret {| r_addr_of := a; r_redis_of := r |}.

Definition dec_dtls (c : Z) : tls_mode := if c =? 0 then DSecure else DInsecure.
Definition dec_rtls (c : Z) : r_tls_mode := if c =? 0 then RSecure else RInsecure.
Definition dec_dstype (c : Z) : sentinel_server_type := if c =? 0 then DMaster else DReplica.
Definition dec_rstype (c : Z) : r_server_type := if c =? 0 then RMaster else RReplica.

Definition rd_dnode : P sentinel_node_connection_info :=
  t <- rd_opt rd_int ;; r <- rd_opt rd_dredis ;;
  ret {| d_tls_mode := option_map dec_dtls t; d_redis_connection_info := r |}.
Definition rd_rnode : P r_node :=
  t <- rd_opt rd_int ;; r <- rd_opt rd_rredis ;;
  ret {| r_tls_mode_of := option_map dec_rtls t; r_redis_connection_info := r |}.

Definition rd_redis_env (dflt : Z) : P redis_env :=
  parsed <- rd_opt (rd_list rd_rinfo) ;; au <- rd_bool ;; ac <- rd_bool ;; ad <- rd_bool ;;
  ret {| re_parsed := parsed; re_accept_urls := au; re_accept_connections := ac;
         re_accept_default := ad; re_dflt_max := dflt |}.

Definition rd_redis_cfg : P redis_cfg :=
  u <- rd_opt rd_str ;; c <- rd_opt rd_dinfo ;; p <- rd_opt rd_pool ;;
  ret {| rc_url := u; rc_connection := c; rc_pool := p |}.

Definition rd_cluster_cfg : P cluster_cfg :=
  u <- rd_opt (rd_list rd_str) ;; c <- rd_opt (rd_list rd_dinfo) ;; p <- rd_opt rd_pool ;; r <- rd_bool ;;
  ret {| cc_urls := u; cc_connections := c; cc_pool := p; cc_read_from_replicas := r |}.

Definition rd_sentinel_cfg : P sentinel_cfg :=
  u <- rd_opt (rd_list rd_str) ;; st <- rd_int ;; mn <- rd_str ;; c <- rd_opt (rd_list rd_dinfo) ;;
  n <- rd_opt rd_dnode ;; p <- rd_opt rd_pool ;;
  ret {| sc_urls := u; sc_server_type := dec_dstype st; sc_master_name := mn; sc_connections := c;
         sc_node_connection_info := n; sc_pool := p |}.

(* ---------------------------------------------------------------- trees *)
(* 0 null | 1 b | 2 z | 3 str | 4 n (str tree)*n ; [fuel] bounds the nesting depth *)
Fixpoint rd_tree (fuel : nat) : P tree :=
  match fuel with
  | O => ret TNull
  | S f =>
      k <- rd_int ;;
      if k =? 0 then ret TNull
      else if k =? 1 then (b <- rd_bool ;; ret (TBool b))
      else if k =? 2 then (z <- rd_int ;; ret (TNum z))
      else if k =? 3 then (s <- rd_str ;; ret (TStr s))
      else (m <- rd_list (key <- rd_str ;; v <- rd_tree f ;; ret (key, v)) ;; ret (TMap m))
  end.

Definition nthz (l : list Z) (i : nat) : Z := nth i l 0.
Definition row (rows : list (list Z)) (i : nat) : list Z := nth i rows [].
Definition parse {A} (p : P A) (l : list Z) : A := fst (p l).
