(* Config engine - definitions shared by the Postgres, Redis and serde models:
   strings, durations, deadpool's PoolConfig / Timeouts / QueueMode and PoolBuilder::build.
   Definitions only.

   Strings are lists of their UTF-8 bytes (Rust's own representation of a String; a
   password handed to tokio_postgres as bytes is therefore the same list). Emptiness is []. *)
From Coq Require Import List ZArith Bool.
Import ListNotations.
Open Scope Z_scope.

Definition str := list Z.

Definition str_nonempty (s : str) : bool := match s with [] => false | _ :: _ => true end.

(* Option<&String>.filter(|s| !s.is_empty()) *)
Definition filter_nonempty (o : option str) : option str :=
  match o with
  | Some s => if str_nonempty s then Some s else None
  | None => None
  end.

(* std::time::Duration as seen through as_secs / subsec_nanos *)
Record dur := { secs : Z; nanos : Z }.

Definition u64_max : Z := 18446744073709551615.
Definition u32_max : Z := 4294967295.
Definition nanos_per_sec : Z := 1000000000.

Definition wf_dur (d : dur) : Prop := 0 <= secs d <= u64_max /\ 0 <= nanos d < nanos_per_sec.
Definition wf_odur (o : option dur) : Prop := match o with Some d => wf_dur d | None => True end.

(* deadpool::managed::Timeouts *)
Record timeouts := { t_wait : option dur; t_create : option dur; t_recycle : option dur }.

(* deadpool::managed::QueueMode *)
Inductive queue_mode := Fifo | Lifo.

(* deadpool::managed::PoolConfig *)
Record pool_cfg := { p_max_size : Z; p_timeouts : timeouts; p_queue_mode : queue_mode }.

Definition wf_timeouts (t : timeouts) : Prop :=
  wf_odur (t_wait t) /\ wf_odur (t_create t) /\ wf_odur (t_recycle t).
Definition wf_pool (c : pool_cfg) : Prop :=
  0 <= p_max_size c <= u64_max /\ wf_timeouts (p_timeouts c).

(* Timeouts::default(), QueueMode::default(), PoolConfig::new / default. The default
   max_size is cpu_count * 4: the value observed on the machine is an input ([dflt_max]). *)
Definition default_timeouts : timeouts := {| t_wait := None; t_create := None; t_recycle := None |}.
Definition default_queue_mode : queue_mode := Fifo.
Definition default_pool (dflt_max : Z) : pool_cfg :=
  {| p_max_size := dflt_max; p_timeouts := default_timeouts; p_queue_mode := default_queue_mode |}.

(* Option<PoolConfig>.unwrap_or_default() *)
Definition pool_or_default (dflt_max : Z) (o : option pool_cfg) : pool_cfg :=
  match o with Some p => p | None => default_pool dflt_max end.

Definition is_some {A} (o : option A) : bool := match o with Some _ => true | None => false end.

Definition has_timeouts (t : timeouts) : bool :=
  is_some (t_wait t) || is_some (t_create t) || is_some (t_recycle t).

(* deadpool::managed::BuildError *)
Inductive build_error := NoRuntimeSpecified.

(* PoolBuilder::build: the configuration the pool is built with, or the build error *)
Definition build (runtime : bool) (p : pool_cfg) : build_error + pool_cfg :=
  if has_timeouts (p_timeouts p) && negb runtime then inl NoRuntimeSpecified else inr p.
