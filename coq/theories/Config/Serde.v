(* The serde data model restricted to what PoolConfig, Timeouts and QueueMode use
   (src/managed/config.rs: derive(Serialize, Deserialize), serde(default) on timeouts and
   queue_mode), std::time::Duration's serde impls, and the two kinds of sources:
   typed trees (serde_json::Value) and string-typed trees (config::Value built by an
   Environment source). Definitions only.

   The text <-> tree step of serde_json and of the config crate is an oracle: the trees the
   harness hands to [de_*] are the ones those crates produced. *)
From Coq Require Import List ZArith Bool Decimal.
From DP Require Import Config.Base.
Import ListNotations.
Open Scope Z_scope.

Inductive tree :=
  | TNull
  | TBool (b : bool)
  | TNum (z : Z)
  | TStr (s : str)
  | TMap (m : list (str * tree)).

(* which Deserializer reads the tree *)
Inductive mode :=
  | Typed      (* serde_json::Value: no coercions *)
  | Lenient.   (* config::Value: strings are parsed where a number is expected, enum names
                  are matched without regard to case *)

Fixpoint str_eqb (a b : str) : bool :=
  match a, b with
  | [], [] => true
  | x :: a', y :: b' => (x =? y) && str_eqb a' b'
  | _, _ => false
  end.

Fixpoint lookup (k : str) (m : list (str * tree)) : option tree :=
  match m with
  | [] => None
  | (k', v) :: m' => if str_eqb k k' then Some v else lookup k m'
  end.

Fixpoint keys_within (allowed : list str) (m : list (str * tree)) : bool :=
  match m with
  | [] => true
  | (k, _) :: m' => existsb (str_eqb k) allowed && keys_within allowed m'
  end.

(* field and variant names, as bytes *)
Definition k_max_size : str := [109;97;120;95;115;105;122;101].
Definition k_timeouts : str := [116;105;109;101;111;117;116;115].
Definition k_queue_mode : str := [113;117;101;117;101;95;109;111;100;101].
Definition k_wait : str := [119;97;105;116].
Definition k_create : str := [99;114;101;97;116;101].
Definition k_recycle : str := [114;101;99;121;99;108;101].
Definition k_secs : str := [115;101;99;115].
Definition k_nanos : str := [110;97;110;111;115].
Definition k_Fifo : str := [70;105;102;111].
Definition k_Lifo : str := [76;105;102;111].
Definition k_true : str := [116;114;117;101].
Definition k_on : str := [111;110].
Definition k_yes : str := [121;101;115].
Definition k_false : str := [102;97;108;115;101].
Definition k_off : str := [111;102;102].
Definition k_no : str := [110;111].

(* ---------------------------------------------------------------- decimal numerals *)
Fixpoint digits_of_uint (u : uint) : str :=
  match u with
  | Nil => []
  | D0 u => 48 :: digits_of_uint u
  | D1 u => 49 :: digits_of_uint u
  | D2 u => 50 :: digits_of_uint u
  | D3 u => 51 :: digits_of_uint u
  | D4 u => 52 :: digits_of_uint u
  | D5 u => 53 :: digits_of_uint u
  | D6 u => 54 :: digits_of_uint u
  | D7 u => 55 :: digits_of_uint u
  | D8 u => 56 :: digits_of_uint u
  | D9 u => 57 :: digits_of_uint u
  end.

Fixpoint uint_of_digits (s : str) : option uint :=
  match s with
  | [] => Some Nil
  | c :: s' =>
      match uint_of_digits s' with
      | None => None
      | Some u =>
          if c =? 48 then Some (D0 u) else if c =? 49 then Some (D1 u)
          else if c =? 50 then Some (D2 u) else if c =? 51 then Some (D3 u)
          else if c =? 52 then Some (D4 u) else if c =? 53 then Some (D5 u)
          else if c =? 54 then Some (D6 u) else if c =? 55 then Some (D7 u)
          else if c =? 56 then Some (D8 u) else if c =? 57 then Some (D9 u)
          else None
      end
  end.

(* what Display prints for an unsigned integer *)
Definition dec (z : Z) : str := digits_of_uint (N.to_uint (Z.to_N z)).

(* one or more ASCII digits, of any length *)
Definition parse_digits (s : str) : option Z :=
  match s with
  | [] => None
  | _ :: _ => option_map (fun u => Z.of_N (N.of_uint u)) (uint_of_digits s)
  end.

(* <u64 as FromStr>: an optional '+', then digits (the range is checked by the caller) *)
Definition strip_plus (s : str) : str := match s with 43 :: r => r | _ => s end.
Definition parse_uint (s : str) : option Z := parse_digits (strip_plus s).

Definition ascii_lower (c : Z) : Z := if (65 <=? c) && (c <=? 90) then c + 32 else c.
Definition lower (s : str) : str := map ascii_lower s.

(* config::Value::into_uint on a string *)
Definition lenient_uint (s : str) : option Z :=
  let l := lower s in
  if existsb (str_eqb l) [k_true; k_on; k_yes] then Some 1
  else if existsb (str_eqb l) [k_false; k_off; k_no] then Some 0
  else parse_uint s.

Definition in_range (bound : Z) (z : Z) : option Z :=
  if (0 <=? z) && (z <=? bound) then Some z else None.

Definition bind {A B} (o : option A) (f : A -> option B) : option B :=
  match o with Some x => f x | None => None end.

(* an unsigned integer of at most [bound] (u64 or u32) *)
Definition de_uint (m : mode) (bound : Z) (t : tree) : option Z :=
  match m, t with
  | _, TNum z => in_range bound z
  | Lenient, TStr s => bind (lenient_uint s) (in_range bound)
  | Lenient, TBool b => in_range bound (if b then 1 else 0)
  | _, _ => None
  end.

(* ---------------------------------------------------------------- Duration *)
Definition ser_dur (d : dur) : tree := TMap [(k_secs, TNum (secs d)); (k_nanos, TNum (nanos d))].

(* serde's Duration visitor: both fields required, no other field tolerated, whole seconds
   in nanos carried into secs, an overflow of secs is an error *)
Definition de_dur (m : mode) (t : tree) : option dur :=
  match t with
  | TMap kv =>
      if keys_within [k_secs; k_nanos] kv then
        bind (bind (lookup k_secs kv) (de_uint m u64_max)) (fun s =>
        bind (bind (lookup k_nanos kv) (de_uint m u32_max)) (fun n =>
          let s' := s + n / nanos_per_sec in
          if s' <=? u64_max then Some {| secs := s'; nanos := n mod nanos_per_sec |} else None))
      else None
  | _ => None
  end.

Definition ser_odur (o : option dur) : tree := match o with Some d => ser_dur d | None => TNull end.

(* Option<Duration>: null is None *)
Definition de_odur (m : mode) (t : tree) : option (option dur) :=
  match t with
  | TNull => Some None
  | _ => option_map Some (de_dur m t)
  end.

(* a struct field of type Option<_>: a missing key is None *)
Definition de_ofield (m : mode) (k : str) (kv : list (str * tree)) : option (option dur) :=
  match lookup k kv with
  | None => Some None
  | Some v => de_odur m v
  end.

(* ---------------------------------------------------------------- Timeouts *)
Definition ser_timeouts (t : timeouts) : tree :=
  TMap [(k_wait, ser_odur (t_wait t)); (k_create, ser_odur (t_create t));
        (k_recycle, ser_odur (t_recycle t))].

Definition de_timeouts (m : mode) (t : tree) : option timeouts :=
  match t with
  | TMap kv =>
      bind (de_ofield m k_wait kv) (fun w =>
      bind (de_ofield m k_create kv) (fun c =>
      bind (de_ofield m k_recycle kv) (fun r =>
        Some {| t_wait := w; t_create := c; t_recycle := r |})))
  | _ => None
  end.

(* ---------------------------------------------------------------- QueueMode *)
Definition ser_queue_mode (q : queue_mode) : tree :=
  match q with Fifo => TStr k_Fifo | Lifo => TStr k_Lifo end.

Definition variant (m : mode) (s : str) : option queue_mode :=
  match m with
  | Typed => if str_eqb s k_Fifo then Some Fifo else if str_eqb s k_Lifo then Some Lifo else None
  | Lenient =>
      if str_eqb (lower s) (lower k_Fifo) then Some Fifo
      else if str_eqb (lower s) (lower k_Lifo) then Some Lifo else None
  end.

(* a unit variant: its name, or the externally tagged form {name: null} (the config crate
   does not look at the value) *)
Definition de_queue_mode (m : mode) (t : tree) : option queue_mode :=
  match t with
  | TStr s => variant m s
  | TMap [(k, v)] =>
      match m, v with
      | Typed, TNull => variant m k
      | Typed, _ => None
      | Lenient, _ => variant m k
      end
  | _ => None
  end.

(* ---------------------------------------------------------------- PoolConfig *)
Definition ser_pool (c : pool_cfg) : tree :=
  TMap [(k_max_size, TNum (p_max_size c)); (k_timeouts, ser_timeouts (p_timeouts c));
        (k_queue_mode, ser_queue_mode (p_queue_mode c))].

Definition de_pool (m : mode) (t : tree) : option pool_cfg :=
  match t with
  | TMap kv =>
      bind (bind (lookup k_max_size kv) (de_uint m u64_max)) (fun n =>
      bind (match lookup k_timeouts kv with
            | None => Some default_timeouts
            | Some v => de_timeouts m v
            end) (fun ts =>
      bind (match lookup k_queue_mode kv with
            | None => Some default_queue_mode
            | Some v => de_queue_mode m v
            end) (fun q =>
        Some {| p_max_size := n; p_timeouts := ts; p_queue_mode := q |})))
  | _ => None
  end.

(* ---------------------------------------------------------------- string-typed sources *)
(* What an environment source holds for the variables one writes for a value: every leaf
   is a string, an absent Option is an absent variable, a section with no variable at all
   is absent. *)
Definition env_dur (d : dur) : tree := TMap [(k_secs, TStr (dec (secs d))); (k_nanos, TStr (dec (nanos d)))].

Definition env_ofield (k : str) (o : option dur) : list (str * tree) :=
  match o with Some d => [(k, env_dur d)] | None => [] end.

Definition env_timeouts (t : timeouts) : tree :=
  TMap (env_ofield k_wait (t_wait t) ++ env_ofield k_create (t_create t)
        ++ env_ofield k_recycle (t_recycle t)).

Definition env_queue_mode (q : queue_mode) : tree := ser_queue_mode q.

Definition env_pool (c : pool_cfg) : tree :=
  TMap ([(k_max_size, TStr (dec (p_max_size c)))]
        ++ (if has_timeouts (p_timeouts c) then [(k_timeouts, env_timeouts (p_timeouts c))] else [])
        ++ [(k_queue_mode, env_queue_mode (p_queue_mode c))]).
