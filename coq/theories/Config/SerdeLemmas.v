(* Lemmas about the serde model (C19): serialise / deserialise round trips over the whole
   value range, from typed and from string-typed trees, and defaults for omitted sections.
   Plain Ltac, stdlib only. *)
From Coq Require Import List ZArith Bool Lia Decimal DecimalN.
From DP Require Import Config.Base Config.Serde.
Import ListNotations.
Open Scope Z_scope.

(* ---------------------------------------------------------------- keys *)
Lemma str_eqb_refl : forall s, str_eqb s s = true.
Proof. induction s as [|x s IH]; [reflexivity|]. cbn [str_eqb]. rewrite Z.eqb_refl, IH. reflexivity. Qed.

Lemma str_eqb_eq : forall a b, str_eqb a b = true -> a = b.
Proof.
  induction a as [|x a IH]; intros [|y b] H; try discriminate; [reflexivity|].
  cbn [str_eqb] in H. apply andb_true_iff in H. destruct H as [H1 H2].
  apply Z.eqb_eq in H1. apply IH in H2. subst. reflexivity.
Qed.

(* ---------------------------------------------------------------- numbers *)
Lemma in_range_ok : forall bound z, 0 <= z <= bound -> in_range bound z = Some z.
Proof.
  intros bound z [H1 H2]. unfold in_range.
  apply Z.leb_le in H1. apply Z.leb_le in H2. rewrite H1, H2. reflexivity.
Qed.

Lemma in_range_inv : forall bound z z', in_range bound z = Some z' -> z' = z /\ 0 <= z <= bound.
Proof.
  intros bound z z' H. unfold in_range in H.
  destruct (0 <=? z) eqn:H1; destruct (z <=? bound) eqn:H2; cbn [andb] in H; try discriminate.
  injection H as <-. apply Z.leb_le in H1. apply Z.leb_le in H2. split; [reflexivity|split; assumption].
Qed.

Lemma de_uint_num : forall m bound z, 0 <= z <= bound -> de_uint m bound (TNum z) = Some z.
Proof. intros m bound z H. destruct m; cbn [de_uint]; apply in_range_ok; assumption. Qed.

Lemma de_uint_range : forall m bound t z, de_uint m bound t = Some z -> 0 <= z <= bound.
Proof.
  intros m bound t z H. destruct m; destruct t as [|b|n|s|kv]; cbn [de_uint] in H; try discriminate.
  - apply in_range_inv in H. destruct H as [-> H]. exact H.
  - apply in_range_inv in H. destruct H as [-> H]. exact H.
  - apply in_range_inv in H. destruct H as [-> H]. exact H.
  - unfold bind in H. destruct (lenient_uint s) as [v|]; [|discriminate].
    apply in_range_inv in H. destruct H as [-> H]. exact H.
Qed.

(* ---------------------------------------------------------------- decimal numerals *)
Definition is_digit (c : Z) : Prop := 48 <= c <= 57.

Lemma digits_roundtrip : forall u, uint_of_digits (digits_of_uint u) = Some u.
Proof.
  induction u as [|u IH|u IH|u IH|u IH|u IH|u IH|u IH|u IH|u IH|u IH];
    [reflexivity| | | | | | | | | |]; cbn [digits_of_uint uint_of_digits]; rewrite IH; reflexivity.
Qed.

Lemma digits_are_digits : forall u, Forall is_digit (digits_of_uint u).
Proof.
  induction u as [|u IH|u IH|u IH|u IH|u IH|u IH|u IH|u IH|u IH|u IH]; cbn [digits_of_uint];
    [constructor| | | | | | | | | |]; (constructor; [unfold is_digit; lia|exact IH]).
Qed.

Lemma to_uint_not_nil : forall n, N.to_uint n <> Nil.
Proof.
  intros n H. assert (Hn : N.of_uint (N.to_uint n) = n) by apply Unsigned.of_to.
  rewrite H in Hn. cbn in Hn. subst n. discriminate.
Qed.

Lemma dec_nonempty : forall z, dec z <> [].
Proof.
  intros z. unfold dec. destruct (N.to_uint (Z.to_N z)) eqn:Hu; cbn [digits_of_uint]; try discriminate.
  exfalso. exact (to_uint_not_nil _ Hu).
Qed.

Lemma dec_digits : forall z, Forall is_digit (dec z).
Proof. intros z. apply digits_are_digits. Qed.

Lemma parse_digits_dec : forall z, 0 <= z -> parse_digits (dec z) = Some z.
Proof.
  intros z Hz. unfold parse_digits. destruct (dec z) as [|c s] eqn:Hd.
  - exfalso. exact (dec_nonempty z Hd).
  - rewrite <- Hd. unfold dec. rewrite digits_roundtrip. cbn [option_map].
    rewrite Unsigned.of_to. rewrite Z2N.id by assumption. reflexivity.
Qed.

Lemma strip_plus_dec : forall z, strip_plus (dec z) = dec z.
Proof.
  intros z. pose proof (dec_digits z) as Hf. destruct (dec z) as [|c s]; [reflexivity|].
  inversion Hf as [|c' s' Hc Hs]; subst. unfold is_digit in Hc. unfold strip_plus.
  destruct (Z.eq_dec c 43) as [->|Hne]; [lia|].
  destruct c as [|p|p]; try reflexivity.
  repeat (destruct p as [p|p|]; try reflexivity); lia.
Qed.

Lemma parse_uint_dec : forall z, 0 <= z -> parse_uint (dec z) = Some z.
Proof. intros z Hz. unfold parse_uint. rewrite strip_plus_dec. apply parse_digits_dec. assumption. Qed.

Lemma lower_digit : forall c, is_digit c -> ascii_lower c = c.
Proof.
  intros c [H1 H2]. unfold ascii_lower.
  destruct (65 <=? c) eqn:H; [apply Z.leb_le in H; lia|reflexivity].
Qed.

(* a string that starts with a digit is none of the words true/on/yes/false/off/no *)
Lemma digit_head_not_word : forall c s w x,
  is_digit c -> 58 <= x -> str_eqb (lower (c :: s)) (x :: w) = false.
Proof.
  intros c s w x Hc Hx. unfold lower. cbn [map str_eqb]. rewrite (lower_digit c Hc).
  destruct (c =? x) eqn:H; [apply Z.eqb_eq in H; unfold is_digit in Hc; lia|reflexivity].
Qed.

Lemma lenient_uint_dec : forall z, 0 <= z -> lenient_uint (dec z) = Some z.
Proof.
  intros z Hz. unfold lenient_uint. pose proof (dec_digits z) as Hf.
  pose proof (parse_uint_dec z Hz) as Hp.
  destruct (dec z) as [|c s] eqn:Hd; [exfalso; exact (dec_nonempty z Hd)|].
  inversion Hf as [|c' s' Hc Hs]; subst.
  unfold k_true, k_on, k_yes, k_false, k_off, k_no. cbn [existsb].
  rewrite !digit_head_not_word by (assumption || lia). cbn [orb]. exact Hp.
Qed.

Lemma de_uint_env : forall bound z, 0 <= z <= bound -> de_uint Lenient bound (TStr (dec z)) = Some z.
Proof.
  intros bound z H. cbn [de_uint]. rewrite lenient_uint_dec by lia. cbn [bind].
  apply in_range_ok. assumption.
Qed.

(* ---------------------------------------------------------------- Duration *)
Lemma carry_none : forall s n, 0 <= s <= u64_max -> 0 <= n < nanos_per_sec ->
  (if s + n / nanos_per_sec <=? u64_max
   then Some {| secs := s + n / nanos_per_sec; nanos := n mod nanos_per_sec |} else None)
  = Some {| secs := s; nanos := n |}.
Proof.
  intros s n Hs Hn. rewrite Z.div_small by assumption. rewrite Z.mod_small by assumption.
  rewrite Z.add_0_r. destruct (s <=? u64_max) eqn:H; [reflexivity|].
  apply Z.leb_gt in H. lia.
Qed.

Lemma nanos_fit_u32 : forall n, 0 <= n < nanos_per_sec -> 0 <= n <= u32_max.
Proof. intros n H. unfold nanos_per_sec, u32_max in *. lia. Qed.

Lemma dur_keys : forall a b, keys_within [k_secs; k_nanos] [(k_secs, a); (k_nanos, b)] = true.
Proof. reflexivity. Qed.
Lemma dur_lookup_secs : forall a b, lookup k_secs [(k_secs, a); (k_nanos, b)] = Some a.
Proof. reflexivity. Qed.
Lemma dur_lookup_nanos : forall a b, lookup k_nanos [(k_secs, a); (k_nanos, b)] = Some b.
Proof. reflexivity. Qed.

Lemma dur_roundtrip : forall m d, wf_dur d -> de_dur m (ser_dur d) = Some d.
Proof.
  intros m [s n] [Hs Hn]. cbn [secs nanos] in Hs, Hn. unfold ser_dur, de_dur. cbn [secs nanos].
  rewrite dur_keys, dur_lookup_secs, dur_lookup_nanos. cbn [bind].
  rewrite de_uint_num by assumption. cbn [bind].
  rewrite de_uint_num by (apply nanos_fit_u32; assumption). cbn [bind].
  apply carry_none; assumption.
Qed.

Lemma dur_roundtrip_env : forall d, wf_dur d -> de_dur Lenient (env_dur d) = Some d.
Proof.
  intros [s n] [Hs Hn]. cbn [secs nanos] in Hs, Hn. unfold env_dur, de_dur. cbn [secs nanos].
  rewrite dur_keys, dur_lookup_secs, dur_lookup_nanos. cbn [bind].
  rewrite de_uint_env by assumption. cbn [bind].
  rewrite de_uint_env by (apply nanos_fit_u32; assumption). cbn [bind].
  apply carry_none; assumption.
Qed.

(* whatever tree a duration is read from, the result is a normalised Duration *)
Lemma de_dur_wf : forall m t d, de_dur m t = Some d -> wf_dur d.
Proof.
  intros m t d H. destruct t as [| | | |kv]; try discriminate. unfold de_dur in H.
  destruct (keys_within [k_secs; k_nanos] kv); [|discriminate].
  destruct (lookup k_secs kv) as [vs|]; [|discriminate]. cbn [bind] in H.
  destruct (de_uint m u64_max vs) as [s|] eqn:Hs; [|discriminate]. cbn [bind] in H.
  destruct (lookup k_nanos kv) as [vn|]; [|discriminate]. cbn [bind] in H.
  destruct (de_uint m u32_max vn) as [n|] eqn:Hn; [|discriminate]. cbn [bind] in H.
  destruct (s + n / nanos_per_sec <=? u64_max) eqn:Hle; [|discriminate].
  inversion H; subst d. apply Z.leb_le in Hle.
  apply de_uint_range in Hs. apply de_uint_range in Hn.
  unfold wf_dur; cbn [secs nanos].
  assert (Hq : 0 <= n / nanos_per_sec) by (apply Z.div_pos; unfold nanos_per_sec; lia).
  assert (Hm : 0 <= n mod nanos_per_sec < nanos_per_sec)
    by (apply Z.mod_pos_bound; unfold nanos_per_sec; lia).
  lia.
Qed.

Lemma odur_roundtrip : forall m o, wf_odur o -> de_odur m (ser_odur o) = Some o.
Proof.
  intros m [d|] H; [|reflexivity]. cbn [ser_odur]. unfold de_odur.
  change (ser_dur d) with (TMap [(k_secs, TNum (secs d)); (k_nanos, TNum (nanos d))]).
  change (TMap [(k_secs, TNum (secs d)); (k_nanos, TNum (nanos d))]) with (ser_dur d).
  rewrite dur_roundtrip by exact H. reflexivity.
Qed.

(* ---------------------------------------------------------------- Timeouts *)
Lemma timeouts_roundtrip : forall m t, wf_timeouts t -> de_timeouts m (ser_timeouts t) = Some t.
Proof.
  intros m [w c r] [Hw [Hc Hr]]. cbn [t_wait t_create t_recycle] in Hw, Hc, Hr.
  unfold ser_timeouts, de_timeouts, de_ofield. cbn [t_wait t_create t_recycle].
  change (lookup k_wait [(k_wait, ser_odur w); (k_create, ser_odur c); (k_recycle, ser_odur r)])
    with (Some (ser_odur w)).
  change (lookup k_create [(k_wait, ser_odur w); (k_create, ser_odur c); (k_recycle, ser_odur r)])
    with (Some (ser_odur c)).
  change (lookup k_recycle [(k_wait, ser_odur w); (k_create, ser_odur c); (k_recycle, ser_odur r)])
    with (Some (ser_odur r)).
  cbv beta iota. rewrite !odur_roundtrip by assumption. reflexivity.
Qed.

Lemma env_ofield_lookup_same : forall k o rest,
  lookup k (env_ofield k o ++ rest) = match o with Some d => Some (env_dur d) | None => lookup k rest end.
Proof.
  intros k [d|] rest; [|reflexivity]. cbn [env_ofield Datatypes.app lookup]. rewrite str_eqb_refl. reflexivity.
Qed.

Lemma env_ofield_lookup_other : forall k k' o rest,
  str_eqb k k' = false -> lookup k (env_ofield k' o ++ rest) = lookup k rest.
Proof.
  intros k k' [d|] rest H; [|reflexivity]. cbn [env_ofield Datatypes.app lookup]. rewrite H. reflexivity.
Qed.

Lemma de_ofield_env : forall k o rest, wf_odur o ->
  (o = None -> lookup k rest = None) ->
  de_ofield Lenient k (env_ofield k o ++ rest) = Some o.
Proof.
  intros k o rest Hwf Hrest. unfold de_ofield. rewrite env_ofield_lookup_same.
  destruct o as [d|].
  - unfold de_odur, env_dur. fold (env_dur d). rewrite dur_roundtrip_env by exact Hwf. reflexivity.
  - rewrite (Hrest eq_refl). reflexivity.
Qed.

Lemma timeouts_roundtrip_env : forall t, wf_timeouts t -> de_timeouts Lenient (env_timeouts t) = Some t.
Proof.
  intros [w c r] [Hw [Hc Hr]]. cbn [t_wait t_create t_recycle] in Hw, Hc, Hr.
  unfold env_timeouts, de_timeouts. cbn [t_wait t_create t_recycle].
  (* wait *)
  rewrite de_ofield_env; [|assumption|].
  2:{ intros _. rewrite env_ofield_lookup_other by reflexivity.
      replace (env_ofield k_recycle r) with (env_ofield k_recycle r ++ []) by apply app_nil_r.
      rewrite env_ofield_lookup_other by reflexivity. reflexivity. }
  cbn [bind].
  (* create *)
  unfold de_ofield at 1. rewrite env_ofield_lookup_other by reflexivity.
  fold (de_ofield Lenient k_create (env_ofield k_create c ++ env_ofield k_recycle r)).
  rewrite de_ofield_env; [|assumption|].
  2:{ intros _. replace (env_ofield k_recycle r) with (env_ofield k_recycle r ++ []) by apply app_nil_r.
      rewrite env_ofield_lookup_other by reflexivity. reflexivity. }
  cbn [bind].
  (* recycle *)
  unfold de_ofield at 1. rewrite env_ofield_lookup_other by reflexivity.
  rewrite env_ofield_lookup_other by reflexivity.
  replace (env_ofield k_recycle r) with (env_ofield k_recycle r ++ []) by apply app_nil_r.
  fold (de_ofield Lenient k_recycle (env_ofield k_recycle r ++ [])).
  rewrite de_ofield_env; [|assumption|intros _; reflexivity].
  reflexivity.
Qed.

(* a field of Timeouts that is left out is None *)
Lemma timeouts_omitted_field : forall m kv t,
  de_timeouts m (TMap kv) = Some t ->
  (lookup k_wait kv = None -> t_wait t = None) /\
  (lookup k_create kv = None -> t_create t = None) /\
  (lookup k_recycle kv = None -> t_recycle t = None).
Proof.
  intros m kv t H. unfold de_timeouts, de_ofield in H.
  destruct (lookup k_wait kv) as [vw|] eqn:Hw.
  - destruct (de_odur m vw) as [w|]; [|discriminate]. cbn [bind] in H.
    destruct (lookup k_create kv) as [vc|] eqn:Hc.
    + destruct (de_odur m vc) as [c|]; [|discriminate]. cbn [bind] in H.
      destruct (lookup k_recycle kv) as [vr|] eqn:Hr.
      * destruct (de_odur m vr) as [r|]; [|discriminate]. repeat split; try discriminate; try reflexivity.
      * cbn [bind] in H. inversion H. repeat split; try discriminate; try reflexivity.
    + cbn [bind] in H. destruct (lookup k_recycle kv) as [vr|] eqn:Hr.
      * destruct (de_odur m vr) as [r|]; [|discriminate]. cbn [bind] in H. inversion H.
        repeat split; try discriminate; try reflexivity.
      * cbn [bind] in H. inversion H. repeat split; try discriminate; try reflexivity.
  - cbn [bind] in H. destruct (lookup k_create kv) as [vc|] eqn:Hc.
    + destruct (de_odur m vc) as [c|]; [|discriminate]. cbn [bind] in H.
      destruct (lookup k_recycle kv) as [vr|] eqn:Hr.
      * destruct (de_odur m vr) as [r|]; [|discriminate]. cbn [bind] in H. inversion H.
        repeat split; try discriminate; try reflexivity.
      * cbn [bind] in H. inversion H. repeat split; try discriminate; try reflexivity.
    + cbn [bind] in H. destruct (lookup k_recycle kv) as [vr|] eqn:Hr.
      * destruct (de_odur m vr) as [r|]; [|discriminate]. cbn [bind] in H. inversion H.
        repeat split; try discriminate; try reflexivity.
      * cbn [bind] in H. inversion H. repeat split; try discriminate; try reflexivity.
Qed.

(* ---------------------------------------------------------------- QueueMode *)
Lemma queue_mode_roundtrip : forall m q, de_queue_mode m (ser_queue_mode q) = Some q.
Proof. intros [|] [|]; reflexivity. Qed.

(* ---------------------------------------------------------------- PoolConfig *)
Lemma pool_roundtrip : forall m c, wf_pool c -> de_pool m (ser_pool c) = Some c.
Proof.
  intros m [n ts q] [Hn Hts]. cbn [p_max_size p_timeouts] in Hn, Hts.
  unfold ser_pool, de_pool. cbn [p_max_size p_timeouts p_queue_mode].
  change (lookup k_max_size [(k_max_size, TNum n); (k_timeouts, ser_timeouts ts); (k_queue_mode, ser_queue_mode q)])
    with (Some (TNum n)).
  change (lookup k_timeouts [(k_max_size, TNum n); (k_timeouts, ser_timeouts ts); (k_queue_mode, ser_queue_mode q)])
    with (Some (ser_timeouts ts)).
  change (lookup k_queue_mode [(k_max_size, TNum n); (k_timeouts, ser_timeouts ts); (k_queue_mode, ser_queue_mode q)])
    with (Some (ser_queue_mode q)).
  cbn [bind]. rewrite de_uint_num by assumption. cbn [bind].
  rewrite timeouts_roundtrip by assumption. cbn [bind].
  rewrite queue_mode_roundtrip. reflexivity.
Qed.

Lemma has_timeouts_false : forall ts, has_timeouts ts = false -> ts = default_timeouts.
Proof.
  intros [[w|] [c|] [r|]] H; cbn in H; try discriminate. reflexivity.
Qed.

Lemma pool_roundtrip_env : forall c, wf_pool c -> de_pool Lenient (env_pool c) = Some c.
Proof.
  intros [n ts q] [Hn Hts]. cbn [p_max_size p_timeouts] in Hn, Hts.
  unfold env_pool, de_pool. cbn [p_max_size p_timeouts p_queue_mode].
  cbn [Datatypes.app lookup]. rewrite str_eqb_refl. cbn [bind].
  rewrite de_uint_env by assumption. cbn [bind].
  change (str_eqb k_timeouts k_max_size) with false.
  change (str_eqb k_queue_mode k_max_size) with false. cbv iota.
  destruct (has_timeouts ts) eqn:Hht.
  - cbn [Datatypes.app lookup]. rewrite str_eqb_refl.
    rewrite timeouts_roundtrip_env by assumption. cbn [bind].
    change (str_eqb k_queue_mode k_timeouts) with false. cbv iota.
    rewrite str_eqb_refl. unfold env_queue_mode. rewrite queue_mode_roundtrip. reflexivity.
  - cbn [Datatypes.app lookup].
    change (str_eqb k_timeouts k_queue_mode) with false. cbv iota.
    rewrite str_eqb_refl. cbn [bind]. unfold env_queue_mode. rewrite queue_mode_roundtrip.
    cbn [bind]. rewrite (has_timeouts_false ts Hht). reflexivity.
Qed.

(* omitted sections take the documented defaults *)
Lemma pool_omitted_defaults : forall m kv c,
  de_pool m (TMap kv) = Some c ->
  (lookup k_timeouts kv = None -> p_timeouts c = default_timeouts) /\
  (lookup k_queue_mode kv = None -> p_queue_mode c = Fifo).
Proof.
  intros m kv c H. unfold de_pool in H.
  destruct (lookup k_max_size kv) as [v|]; [|discriminate]. cbn [bind] in H.
  destruct (de_uint m u64_max v) as [n|]; [|discriminate]. cbn [bind] in H.
  destruct (lookup k_timeouts kv) as [vt|] eqn:Ht.
  - destruct (de_timeouts m vt) as [ts|]; [|discriminate]. cbn [bind] in H.
    destruct (lookup k_queue_mode kv) as [vq|] eqn:Hq.
    + destruct (de_queue_mode m vq) as [q|]; [|discriminate]. split; discriminate.
    + cbn [bind] in H. inversion H. split; [discriminate|reflexivity].
  - cbn [bind] in H. destruct (lookup k_queue_mode kv) as [vq|] eqn:Hq.
    + destruct (de_queue_mode m vq) as [q|]; [|discriminate]. cbn [bind] in H. inversion H.
      split; [reflexivity|discriminate].
    + cbn [bind] in H. inversion H. split; reflexivity.
Qed.

Lemma pool_only_max_size : forall m v,
  de_pool m (TMap [(k_max_size, v)]) =
  option_map (fun n => {| p_max_size := n; p_timeouts := default_timeouts; p_queue_mode := Fifo |})
             (de_uint m u64_max v).
Proof.
  intros m v. unfold de_pool.
  change (lookup k_max_size [(k_max_size, v)]) with (Some v).
  change (lookup k_timeouts [(k_max_size, v)]) with (@None tree).
  change (lookup k_queue_mode [(k_max_size, v)]) with (@None tree).
  cbn [bind]. destruct (de_uint m u64_max v); reflexivity.
Qed.

(* max_size has no default: a tree without it is rejected *)
Lemma pool_needs_max_size : forall m kv, lookup k_max_size kv = None -> de_pool m (TMap kv) = None.
Proof. intros m kv H. unfold de_pool. rewrite H. reflexivity. Qed.

(* whatever is read is well formed: no value outside the u64 / u32 ranges gets in *)
Lemma de_odur_wf : forall m t o, de_odur m t = Some o -> wf_odur o.
Proof.
  intros m t o H. unfold de_odur in H.
  destruct t as [| | | |kv]; try (inversion H; exact I);
    try (cbn in H; discriminate).
  destruct (de_dur m (TMap kv)) as [d|] eqn:Hd; [|discriminate].
  cbn [option_map] in H. inversion H. cbn [wf_odur]. exact (de_dur_wf _ _ _ Hd).
Qed.
