(* Lemmas about the Redis configuration model (C19): round trips of the From conversions
   and the four-way match of builder(). Plain Ltac, stdlib only. *)
From Coq Require Import List ZArith Bool.
From DP Require Import Config.Base Config.RedisConfig.
Import ListNotations.
Open Scope Z_scope.

(* ---------------------------------------------------------------- deadpool -> redis -> deadpool *)
Lemma addr_roundtrip : forall a, addr_from (addr_into a) = a.
Proof. intros [h p|h p i|p]; reflexivity. Qed.

Lemma proto_roundtrip : forall p, proto_from (proto_into p) = p.
Proof. intros [|]; reflexivity. Qed.

Lemma redis_roundtrip : forall i, redis_from (redis_into i) = i.
Proof.
  intros [db u pw pr]. unfold redis_from, redis_into; cbn [r_db r_username r_password r_protocol_of
    d_db d_username d_password d_protocol]. rewrite proto_roundtrip. reflexivity.
Qed.

Lemma info_roundtrip : forall i, info_from (info_into i) = i.
Proof.
  intros [a r]. unfold info_from, info_into; cbn [r_addr_of r_redis_of d_addr d_redis].
  rewrite addr_roundtrip, redis_roundtrip. reflexivity.
Qed.

Lemma tls_roundtrip : forall t, tls_from (tls_into t) = t.
Proof. intros [|]; reflexivity. Qed.

Lemma server_type_roundtrip : forall t, server_type_from (server_type_into t) = t.
Proof. intros [|]; reflexivity. Qed.

Lemma node_roundtrip : forall n, node_from (node_into n) = n.
Proof.
  intros [t r]. unfold node_from, node_into;
    cbn [r_tls_mode_of r_redis_connection_info d_tls_mode d_redis_connection_info].
  destruct t as [t|]; destruct r as [r|]; cbn [option_map];
    rewrite ?tls_roundtrip, ?redis_roundtrip; reflexivity.
Qed.

(* field by field: what the redis crate is handed is what the description says *)
Lemma info_into_fields : forall i,
  r_db (r_redis_of (info_into i)) = d_db (d_redis i) /\
  r_username (r_redis_of (info_into i)) = d_username (d_redis i) /\
  r_password (r_redis_of (info_into i)) = d_password (d_redis i) /\
  proto_from (r_protocol_of (r_redis_of (info_into i))) = d_protocol (d_redis i) /\
  addr_from (r_addr_of (info_into i)) = d_addr i.
Proof.
  intros [a [db u pw pr]]. unfold info_into, redis_into;
    cbn [r_addr_of r_redis_of d_addr d_redis r_db r_username r_password r_protocol_of
         d_db d_username d_password d_protocol].
  rewrite proto_roundtrip, addr_roundtrip. repeat split; reflexivity.
Qed.

(* ---------------------------------------------------------------- redis -> deadpool -> redis *)
Lemma addr_roundtrip_rev : forall a, addr_into (addr_from a) = strip_tls a.
Proof. intros [h p|h p i t|p]; reflexivity. Qed.

Lemma addr_roundtrip_rev_exact : forall a,
  (forall h p i, a <> RTcpTls h p i true) -> addr_into (addr_from a) = a.
Proof.
  intros [h p|h p i [|]|p] H; try reflexivity. exfalso. apply (H h p i). reflexivity.
Qed.

Lemma proto_roundtrip_rev : forall p, proto_into (proto_from p) = p.
Proof. intros [|]; reflexivity. Qed.

Lemma redis_roundtrip_rev : forall i, redis_into (redis_from i) = i.
Proof.
  intros [db u pw pr]. unfold redis_from, redis_into; cbn [r_db r_username r_password r_protocol_of
    d_db d_username d_password d_protocol]. rewrite proto_roundtrip_rev. reflexivity.
Qed.

Lemma info_roundtrip_rev : forall i,
  info_into (info_from i) = {| r_addr_of := strip_tls (r_addr_of i); r_redis_of := r_redis_of i |}.
Proof.
  intros [a r]. unfold info_from, info_into; cbn [r_addr_of r_redis_of d_addr d_redis].
  rewrite addr_roundtrip_rev, redis_roundtrip_rev. reflexivity.
Qed.

Lemma tls_roundtrip_rev : forall t, tls_into (tls_from t) = t.
Proof. intros [|]; reflexivity. Qed.

Lemma server_type_roundtrip_rev : forall t, server_type_into (server_type_from t) = t.
Proof. intros [|]; reflexivity. Qed.

Lemma node_roundtrip_rev : forall n, node_into (node_from n) = n.
Proof.
  intros [t r]. unfold node_from, node_into;
    cbn [r_tls_mode_of r_redis_connection_info d_tls_mode d_redis_connection_info].
  destruct t as [t|]; destruct r as [r|]; cbn [option_map];
    rewrite ?tls_roundtrip_rev, ?redis_roundtrip_rev; reflexivity.
Qed.

(* ---------------------------------------------------------------- builder(): the four-way match *)
Definition both {A B} (a : option A) (b : option B) : Prop := a <> None /\ b <> None.

Lemma redis_builder_match : forall e c,
  (both (rc_url c) (rc_connection c) <-> redis_builder_of e c = RbErr UrlAndConnectionSpecified) /\
  (rc_url c = None -> rc_connection c = None ->
     redis_builder_of e c = RbOk (plain_target [info_into default_info])
                                 (pool_or_default (re_dflt_max e) (rc_pool c))) /\
  (forall i, rc_url c = None -> rc_connection c = Some i ->
     redis_builder_of e c = RbOk (plain_target [info_into i])
                                 (pool_or_default (re_dflt_max e) (rc_pool c))) /\
  (forall u, rc_url c = Some u -> rc_connection c = None ->
     (forall l, re_parsed e = Some l ->
        redis_builder_of e c = RbOk (plain_target l) (pool_or_default (re_dflt_max e) (rc_pool c))) /\
     (re_parsed e = None -> redis_builder_of e c = RbErr Redis)).
Proof.
  intros e c. unfold redis_builder_of, both, finish, servers_of_urls.
  destruct (rc_url c) as [u|] eqn:Hu; destruct (rc_connection c) as [i|] eqn:Hi.
  - split; [split; [reflexivity|intros _; split; discriminate]|].
    split; [discriminate|]. split; [discriminate|]. discriminate.
  - split.
    { split; [intros [_ H]; congruence|].
      destruct (re_parsed e); cbn [is_some]; discriminate. }
    split; [discriminate|]. split; [discriminate|].
    intros u' _ _. split.
    + intros l Hl. rewrite Hl. reflexivity.
    + intros Hn. rewrite Hn. reflexivity.
  - split; [split; [intros [H _]; congruence|discriminate]|].
    split; [discriminate|]. split; [|discriminate].
    intros i' _ H. inversion H. reflexivity.
  - split; [split; [intros [H _]; congruence|discriminate]|].
    split; [reflexivity|]. split; discriminate.
Qed.

Lemma cluster_builder_match : forall e c,
  (both (cc_urls c) (cc_connections c) <-> cluster_builder_of e c = RbErr UrlAndConnectionSpecified) /\
  (cc_urls c = None -> cc_connections c = None ->
     cluster_builder_of e c =
       finish (re_accept_default e) (cluster_target (cc_read_from_replicas c) [info_into default_info])
              (pool_or_default (re_dflt_max e) (cc_pool c))) /\
  (forall l, cc_urls c = None -> cc_connections c = Some l ->
     cluster_builder_of e c =
       finish (re_accept_connections e) (cluster_target (cc_read_from_replicas c) (map info_into l))
              (pool_or_default (re_dflt_max e) (cc_pool c))) /\
  (forall us, cc_urls c = Some us -> cc_connections c = None ->
     cluster_builder_of e c =
       finish (re_accept_urls e) (cluster_target (cc_read_from_replicas c) (servers_of_urls e))
              (pool_or_default (re_dflt_max e) (cc_pool c))).
Proof.
  intros e c. unfold cluster_builder_of, both.
  destruct (cc_urls c) as [u|] eqn:Hu; destruct (cc_connections c) as [i|] eqn:Hi.
  - split; [split; [reflexivity|intros _; split; discriminate]|].
    split; [discriminate|]. split; discriminate.
  - split.
    { split; [intros [_ H]; congruence|]. unfold finish. destruct (re_accept_urls e); discriminate. }
    split; [discriminate|]. split; [discriminate|]. reflexivity.
  - split.
    { split; [intros [H _]; congruence|]. unfold finish. destruct (re_accept_connections e); discriminate. }
    split; [discriminate|]. split; [|discriminate]. intros l _ H. inversion H. reflexivity.
  - split.
    { split; [intros [H _]; congruence|]. unfold finish. destruct (re_accept_default e); discriminate. }
    split; [reflexivity|]. split; discriminate.
Qed.

Lemma sentinel_builder_match : forall e c,
  (both (sc_urls c) (sc_connections c) <-> sentinel_builder_of e c = RbErr UrlAndConnectionSpecified) /\
  (sc_urls c = None -> sc_connections c = None ->
     sentinel_builder_of e c =
       finish (re_accept_default e) (sentinel_target c [info_into default_info])
              (pool_or_default (re_dflt_max e) (sc_pool c))) /\
  (forall l, sc_urls c = None -> sc_connections c = Some l ->
     sentinel_builder_of e c =
       finish (re_accept_connections e) (sentinel_target c (map info_into l))
              (pool_or_default (re_dflt_max e) (sc_pool c))) /\
  (forall us, sc_urls c = Some us -> sc_connections c = None ->
     sentinel_builder_of e c =
       finish (re_accept_urls e) (sentinel_target c (servers_of_urls e))
              (pool_or_default (re_dflt_max e) (sc_pool c))).
Proof.
  intros e c. unfold sentinel_builder_of, both.
  destruct (sc_urls c) as [u|] eqn:Hu; destruct (sc_connections c) as [i|] eqn:Hi.
  - split; [split; [reflexivity|intros _; split; discriminate]|].
    split; [discriminate|]. split; discriminate.
  - split.
    { split; [intros [_ H]; congruence|]. unfold finish. destruct (re_accept_urls e); discriminate. }
    split; [discriminate|]. split; [discriminate|]. reflexivity.
  - split.
    { split; [intros [H _]; congruence|]. unfold finish. destruct (re_accept_connections e); discriminate. }
    split; [discriminate|]. split; [|discriminate]. intros l _ H. inversion H. reflexivity.
  - split.
    { split; [intros [H _]; congruence|]. unfold finish. destruct (re_accept_default e); discriminate. }
    split; [reflexivity|]. split; discriminate.
Qed.

(* an Ok builder names servers that come from the configuration alone, and nothing is lost
   on the way: converting the named servers back gives the connection structures *)
Lemma named_connections_lossless : forall l : list connection_info,
  map info_from (map info_into l) = l.
Proof.
  induction l as [|i l IH]; [reflexivity|]. cbn [map]. rewrite info_roundtrip, IH. reflexivity.
Qed.

(* the pool section reaches the builder unchanged; a build error iff timeouts without runtime *)
Lemma redis_pool_build_error_iff : forall rt b be,
  redis_pool_of rt b = RpBuild be <->
  exists g p, b = RbOk g p /\ has_timeouts (p_timeouts p) = true /\ rt = false.
Proof.
  intros rt b be. destruct be. unfold redis_pool_of. destruct b as [e|g p].
  - split; [discriminate|]. intros [g [p [H _]]]. discriminate.
  - unfold build. destruct (has_timeouts (p_timeouts p)) eqn:Ht; destruct rt; cbn [andb negb].
    + split; [discriminate|]. intros [g' [p' [H [_ H2]]]]. discriminate.
    + split; [intros _; exists g, p; repeat split; assumption|reflexivity].
    + split; [discriminate|]. intros [g' [p' [H [H1 _]]]]. inversion H; subst. congruence.
    + split; [discriminate|]. intros [g' [p' [H [H1 _]]]]. inversion H; subst. congruence.
Qed.

Lemma redis_pool_ok_unchanged : forall rt b g p,
  redis_pool_of rt b = RpOk g p -> b = RbOk g p.
Proof.
  intros rt b g p H. unfold redis_pool_of in H. destruct b as [e|g' p']; [discriminate|].
  unfold build in H. destruct (has_timeouts (p_timeouts p') && negb rt); [discriminate|].
  inversion H. reflexivity.
Qed.
