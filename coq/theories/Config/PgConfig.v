(* Model of deadpool_postgres::Config::{get_pg_config, get_manager_config, get_pool_config,
   builder, create_pool} (postgres/src/config.rs). Definitions only.

   Oracles (inputs, never described by the model): what tokio_postgres::Config::new() and
   tokio_postgres::Config::from_str(url) returned, seen through the getters ([pg_obs]);
   what std::env::var("USER") returned; cpu_count * 4. *)
From Coq Require Import List ZArith Bool.
From DP Require Import Config.Base.
Import ListNotations.
Open Scope Z_scope.

(* ---- deadpool_postgres' own enums (1:1 copies of tokio_postgres' in the source) ---- *)
Inductive ssl_mode := SslDisable | SslPrefer | SslRequire.
Inductive target_session_attrs := TsaAny | TsaReadWrite.
Inductive channel_binding := CbDisable | CbPrefer | CbRequire.
Inductive load_balance_hosts := LbDisable | LbRandom.
Inductive recycling_method := RmFast | RmVerified | RmClean | RmCustom (sql : str).

(* ---- tokio_postgres::config enums ---- *)
Inductive pg_ssl_mode := PgSslDisable | PgSslPrefer | PgSslRequire.
Inductive pg_ssl_negotiation := PgNegPostgres | PgNegDirect.
Inductive pg_target_session_attrs := PgTsaAny | PgTsaReadWrite | PgTsaReadOnly.
Inductive pg_channel_binding := PgCbDisable | PgCbPrefer | PgCbRequire.
Inductive pg_load_balance_hosts := PgLbDisable | PgLbRandom.

(* the four From impls *)
Definition ssl_into (m : ssl_mode) : pg_ssl_mode :=
  match m with SslDisable => PgSslDisable | SslPrefer => PgSslPrefer | SslRequire => PgSslRequire end.
Definition tsa_into (m : target_session_attrs) : pg_target_session_attrs :=
  match m with TsaAny => PgTsaAny | TsaReadWrite => PgTsaReadWrite end.
Definition cb_into (m : channel_binding) : pg_channel_binding :=
  match m with CbDisable => PgCbDisable | CbPrefer => PgCbPrefer | CbRequire => PgCbRequire end.
Definition lb_into (m : load_balance_hosts) : pg_load_balance_hosts :=
  match m with LbDisable => PgLbDisable | LbRandom => PgLbRandom end.

(* deadpool_postgres::ManagerConfig *)
Record manager_cfg := { m_recycling_method : recycling_method }.
Definition default_manager : manager_cfg := {| m_recycling_method := RmFast |}.

(* An IpAddr is an opaque token here: [4;a;b;c;d] or [6; sixteen bytes] *)
Definition ipaddr := list Z.

(* deadpool_postgres::Config - the 21 fields in source order (the inventory check compares
   this record with the struct in /repo on every run) *)
Record pg_cfg := {
  c_url : option str;
  c_user : option str;
  c_password : option str;
  c_dbname : option str;
  c_options : option str;
  c_application_name : option str;
  c_ssl_mode : option ssl_mode;
  c_host : option str;
  c_hosts : option (list str);
  c_hostaddr : option ipaddr;
  c_hostaddrs : option (list ipaddr);
  c_port : option Z;
  c_ports : option (list Z);
  c_connect_timeout : option dur;
  c_keepalives : option bool;
  c_keepalives_idle : option dur;
  c_target_session_attrs : option target_session_attrs;
  c_channel_binding : option channel_binding;
  c_load_balance_hosts : option load_balance_hosts;
  c_manager : option manager_cfg;
  c_pool : option pool_cfg
}.

(* tokio_postgres::config::Host *)
Inductive host := HTcp (name : str) | HUnix (path : str).

(* What the getters of a tokio_postgres::Config show. The last four fields of the
   first block have no counterpart in deadpool_postgres::Config. *)
Record pg_obs := {
  o_user : option str;
  o_password : option str;
  o_dbname : option str;
  o_options : option str;
  o_application_name : option str;
  o_ssl_mode : pg_ssl_mode;
  o_hosts : list host;
  o_hostaddrs : list ipaddr;
  o_ports : list Z;
  o_connect_timeout : option dur;
  o_keepalives : bool;
  o_keepalives_idle : dur;
  o_target_session_attrs : pg_target_session_attrs;
  o_channel_binding : pg_channel_binding;
  o_load_balance_hosts : pg_load_balance_hosts;
  o_ssl_negotiation : pg_ssl_negotiation;
  o_tcp_user_timeout : option dur;
  o_keepalives_interval : option dur;
  o_keepalives_retries : option Z
}.

(* deadpool_postgres::ConfigError / the outcome of get_pg_config *)
Inductive pg_result := PgOk (r : pg_obs) | PgInvalidUrl | PgDbnameMissing | PgDbnameEmpty.

(* the environment of one call *)
Record pg_env := {
  e_unix : bool;                 (* cfg(unix) *)
  e_new : pg_obs;                (* tokio_postgres::Config::new() *)
  e_url : option pg_obs;         (* Config::from_str(url): Some = Ok, None = Err; read only if url is set *)
  e_user : option str;           (* env::var("USER").ok() *)
  e_dflt_max : Z                 (* PoolConfig::default().max_size *)
}.

(* tokio_postgres::Config::host: a leading '/' makes it a socket directory on unix *)
Definition mk_host (unix : bool) (s : str) : host :=
  match s with
  | c :: _ => if unix && (c =? 47) then HUnix s else HTcp s
  | [] => HTcp s
  end.

Definition opt_list {A} (o : option A) : list A := match o with Some x => [x] | None => [] end.
Definition opt_lists {A} (o : option (list A)) : list A := match o with Some l => l | None => [] end.
Definition override {A} (o : option A) (base : A) : A := match o with Some x => x | None => base end.
Definition override_opt {A} (o : option A) (base : option A) : option A :=
  match o with Some x => Some x | None => base end.

(* "/run/postgresql", "/var/run/postgresql", "/tmp" ; "127.0.0.1" *)
Definition s_run_postgresql : str := [47;114;117;110;47;112;111;115;116;103;114;101;115;113;108].
Definition s_var_run_postgresql : str := [47;118;97;114] ++ s_run_postgresql.
Definition s_tmp : str := [47;116;109;112].
Definition s_localhost_ip : str := [49;50;55;46;48;46;48;46;49].
Definition default_hosts (unix : bool) : list host :=
  if unix then [HUnix s_run_postgresql; HUnix s_var_run_postgresql; HUnix s_tmp]
  else [HTcp s_localhost_ip].

(* hosts named by the URL, then the singular field, then the plural field *)
Definition named_hosts (unix : bool) (base : pg_obs) (c : pg_cfg) : list host :=
  o_hosts base ++ map (mk_host unix) (opt_list (c_host c)) ++ map (mk_host unix) (opt_lists (c_hosts c)).

Definition user_effective (env_user : option str) (base : pg_obs) (c : pg_cfg) : option str :=
  let u1 := override_opt (filter_nonempty (c_user c)) (o_user base) in
  if is_some (filter_nonempty u1) then u1 else override_opt env_user u1.

Definition dbname_effective (base : pg_obs) (c : pg_cfg) : option str :=
  override_opt (filter_nonempty (c_dbname c)) (o_dbname base).

(* everything after the dbname check *)
Definition apply_cfg (e : pg_env) (base : pg_obs) (c : pg_cfg) : pg_obs :=
  let named := named_hosts (e_unix e) base c in
  {| o_user := user_effective (e_user e) base c;
     o_password := override_opt (c_password c) (o_password base);
     o_dbname := dbname_effective base c;
     o_options := override_opt (c_options c) (o_options base);
     o_application_name := override_opt (c_application_name c) (o_application_name base);
     o_ssl_mode := override (option_map ssl_into (c_ssl_mode c)) (o_ssl_mode base);
     o_hosts := match named with [] => default_hosts (e_unix e) | _ :: _ => named end;
     o_hostaddrs := o_hostaddrs base ++ opt_list (c_hostaddr c) ++ opt_lists (c_hostaddrs c);
     o_ports := o_ports base ++ opt_list (c_port c) ++ opt_lists (c_ports c);
     o_connect_timeout := override_opt (c_connect_timeout c) (o_connect_timeout base);
     o_keepalives := override (c_keepalives c) (o_keepalives base);
     o_keepalives_idle := override (c_keepalives_idle c) (o_keepalives_idle base);
     o_target_session_attrs :=
       override (option_map tsa_into (c_target_session_attrs c)) (o_target_session_attrs base);
     o_channel_binding := override (option_map cb_into (c_channel_binding c)) (o_channel_binding base);
     o_load_balance_hosts :=
       override (option_map lb_into (c_load_balance_hosts c)) (o_load_balance_hosts base);
     o_ssl_negotiation := o_ssl_negotiation base;
     o_tcp_user_timeout := o_tcp_user_timeout base;
     o_keepalives_interval := o_keepalives_interval base;
     o_keepalives_retries := o_keepalives_retries base |}.

(* the configuration the fields are applied on top of: the parsed URL or Config::new() *)
Definition base_of (e : pg_env) (c : pg_cfg) : option pg_obs :=
  match c_url c with
  | Some _ => e_url e
  | None => Some (e_new e)
  end.

Definition get_pg_config (e : pg_env) (c : pg_cfg) : pg_result :=
  match base_of e c with
  | None => PgInvalidUrl
  | Some base =>
      match dbname_effective base c with
      | None => PgDbnameMissing
      | Some [] => PgDbnameEmpty
      | Some (_ :: _) => PgOk (apply_cfg e base c)
      end
  end.

Definition get_manager_config (c : pg_cfg) : manager_cfg := override (c_manager c) default_manager.
Definition get_pool_config (e : pg_env) (c : pg_cfg) : pool_cfg := pool_or_default (e_dflt_max e) (c_pool c).

(* Config::builder: the three things the PoolBuilder is made of *)
Inductive pg_builder := PbErr (r : pg_result) | PbOk (pg : pg_obs) (m : manager_cfg) (p : pool_cfg).

Definition builder (e : pg_env) (c : pg_cfg) : pg_builder :=
  match get_pg_config e c with
  | PgOk r => PbOk r (get_manager_config c) (get_pool_config e c)
  | err => PbErr err
  end.

(* Config::create_pool / CreatePoolError *)
Inductive pg_pool :=
  | PpConfig (r : pg_result)             (* CreatePoolError::Config *)
  | PpBuild (b : build_error)            (* CreatePoolError::Build *)
  | PpOk (pg : pg_obs) (m : manager_cfg) (p : pool_cfg).

Definition create_pool (e : pg_env) (runtime : bool) (c : pg_cfg) : pg_pool :=
  match builder e c with
  | PbErr r => PpConfig r
  | PbOk pg m p =>
      match build runtime p with
      | inl b => PpBuild b
      | inr p' => PpOk pg m p'
      end
  end.
