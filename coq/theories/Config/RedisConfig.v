(* Model of deadpool_redis' configuration types (redis/src/config.rs, cluster/config.rs,
   sentinel/config.rs): both sides' connection descriptions, the From conversions in both
   directions and builder() of the three Config flavours. Definitions only.

   Oracles (inputs): what the redis crate's URL parser returned for each URL, and whether
   ClusterClientBuilder::build / SentinelClient::build accepted the servers it was given. *)
From Coq Require Import List ZArith Bool.
From DP Require Import Config.Base.
Import ListNotations.
Open Scope Z_scope.

(* ---------------------------------------------------------------- deadpool_redis side *)
(* deadpool_redis::ConnectionAddr *)
Inductive connection_addr :=
  | DTcp (host : str) (port : Z)
  | DTcpTls (host : str) (port : Z) (insecure : bool)
  | DUnix (path : str).

(* deadpool_redis::ProtocolVersion *)
Inductive protocol_version := DRESP2 | DRESP3.

(* deadpool_redis::RedisConnectionInfo *)
Record redis_connection_info := {
  d_db : Z;
  d_username : option str;
  d_password : option str;
  d_protocol : protocol_version
}.

(* deadpool_redis::ConnectionInfo *)
Record connection_info := { d_addr : connection_addr; d_redis : redis_connection_info }.

(* deadpool_redis::sentinel::{SentinelServerType, TlsMode, SentinelNodeConnectionInfo} *)
Inductive sentinel_server_type := DMaster | DReplica.
Inductive tls_mode := DSecure | DInsecure.
Record sentinel_node_connection_info := {
  d_tls_mode : option tls_mode;
  d_redis_connection_info : option redis_connection_info
}.

(* ---------------------------------------------------------------- redis crate side *)
(* redis::ConnectionAddr; tls_params is opaque: only its presence is recorded *)
Inductive r_addr :=
  | RTcp (host : str) (port : Z)
  | RTcpTls (host : str) (port : Z) (insecure : bool) (tls_params : bool)
  | RUnix (path : str).
Inductive r_protocol := RRESP2 | RRESP3.
Record r_redis := { r_db : Z; r_username : option str; r_password : option str; r_protocol_of : r_protocol }.
Record r_info := { r_addr_of : r_addr; r_redis_of : r_redis }.
Inductive r_server_type := RMaster | RReplica.
Inductive r_tls_mode := RSecure | RInsecure.
Record r_node := { r_tls_mode_of : option r_tls_mode; r_redis_connection_info : option r_redis }.

(* ---------------------------------------------------------------- the From impls *)
Definition addr_into (a : connection_addr) : r_addr :=
  match a with
  | DTcp h p => RTcp h p
  | DTcpTls h p i => RTcpTls h p i false
  | DUnix p => RUnix p
  end.
Definition addr_from (a : r_addr) : connection_addr :=
  match a with
  | RTcp h p => DTcp h p
  | RTcpTls h p i _ => DTcpTls h p i
  | RUnix p => DUnix p
  end.

Definition proto_into (p : protocol_version) : r_protocol := match p with DRESP2 => RRESP2 | DRESP3 => RRESP3 end.
Definition proto_from (p : r_protocol) : protocol_version := match p with RRESP2 => DRESP2 | RRESP3 => DRESP3 end.

Definition redis_into (i : redis_connection_info) : r_redis :=
  {| r_db := d_db i; r_username := d_username i; r_password := d_password i;
     r_protocol_of := proto_into (d_protocol i) |}.
Definition redis_from (i : r_redis) : redis_connection_info :=
  {| d_db := r_db i; d_username := r_username i; d_password := r_password i;
     d_protocol := proto_from (r_protocol_of i) |}.

Definition info_into (i : connection_info) : r_info :=
  {| r_addr_of := addr_into (d_addr i); r_redis_of := redis_into (d_redis i) |}.
Definition info_from (i : r_info) : connection_info :=
  {| d_addr := addr_from (r_addr_of i); d_redis := redis_from (r_redis_of i) |}.

Definition server_type_into (t : sentinel_server_type) : r_server_type :=
  match t with DMaster => RMaster | DReplica => RReplica end.
Definition server_type_from (t : r_server_type) : sentinel_server_type :=
  match t with RMaster => DMaster | RReplica => DReplica end.
Definition tls_into (t : tls_mode) : r_tls_mode := match t with DSecure => RSecure | DInsecure => RInsecure end.
Definition tls_from (t : r_tls_mode) : tls_mode := match t with RSecure => DSecure | RInsecure => DInsecure end.

Definition node_into (n : sentinel_node_connection_info) : r_node :=
  {| r_tls_mode_of := option_map tls_into (d_tls_mode n);
     r_redis_connection_info := option_map redis_into (d_redis_connection_info n) |}.
Definition node_from (n : r_node) : sentinel_node_connection_info :=
  {| d_tls_mode := option_map tls_from (r_tls_mode_of n);
     d_redis_connection_info := option_map redis_from (r_redis_connection_info n) |}.

(* what a redis-side address says apart from the opaque TLS material *)
Definition strip_tls (a : r_addr) : r_addr :=
  match a with RTcpTls h p i _ => RTcpTls h p i false | other => other end.

(* ---------------------------------------------------------------- defaults *)
(* "127.0.0.1" *)
Definition s_localhost : str := [49;50;55;46;48;46;48;46;49].
Definition default_addr : connection_addr := DTcp s_localhost 6379.
Definition default_redis : redis_connection_info :=
  {| d_db := 0; d_username := None; d_password := None; d_protocol := DRESP2 |}.
Definition default_info : connection_info := {| d_addr := default_addr; d_redis := default_redis |}.

(* ---------------------------------------------------------------- the three Config flavours *)
(* deadpool_redis::Config *)
Record redis_cfg := {
  rc_url : option str;
  rc_connection : option connection_info;
  rc_pool : option pool_cfg
}.

(* deadpool_redis::cluster::Config *)
Record cluster_cfg := {
  cc_urls : option (list str);
  cc_connections : option (list connection_info);
  cc_pool : option pool_cfg;
  cc_read_from_replicas : bool
}.

(* deadpool_redis::sentinel::Config *)
Record sentinel_cfg := {
  sc_urls : option (list str);
  sc_server_type : sentinel_server_type;
  sc_master_name : str;
  sc_connections : option (list connection_info);
  sc_node_connection_info : option sentinel_node_connection_info;
  sc_pool : option pool_cfg
}.

(* deadpool_redis::ConfigError *)
Inductive redis_config_error := UrlAndConnectionSpecified | Redis.

(* what the client of the built manager was made from *)
Record redis_target := {
  g_servers : list r_info;          (* exactly these are used *)
  g_read_from_replicas : bool;      (* cluster only *)
  g_master_name : str;              (* sentinel only *)
  g_node : option r_node;           (* sentinel only *)
  g_server_type : r_server_type     (* sentinel only *)
}.

Inductive redis_builder := RbErr (e : redis_config_error) | RbOk (g : redis_target) (p : pool_cfg).

(* the oracles of one builder() call *)
Record redis_env := {
  re_parsed : option (list r_info);  (* every URL parsed: Some infos; some URL rejected: None *)
  re_accept_urls : bool;             (* the client constructor accepted the URLs *)
  re_accept_connections : bool;      (* ... the converted connection structures *)
  re_accept_default : bool;          (* ... the default server *)
  re_dflt_max : Z                    (* PoolConfig::default().max_size *)
}.

Definition plain_target (servers : list r_info) : redis_target :=
  {| g_servers := servers; g_read_from_replicas := false; g_master_name := [];
     g_node := None; g_server_type := RMaster |}.

Definition finish (accept : bool) (g : redis_target) (p : pool_cfg) : redis_builder :=
  if accept then RbOk g p else RbErr Redis.

Definition servers_of_urls (e : redis_env) : list r_info :=
  match re_parsed e with Some l => l | None => [] end.

(* deadpool_redis::Config::builder. A single URL is accepted iff it parses. *)
Definition redis_builder_of (e : redis_env) (c : redis_cfg) : redis_builder :=
  let p := pool_or_default (re_dflt_max e) (rc_pool c) in
  match rc_url c, rc_connection c with
  | Some _, None => finish (is_some (re_parsed e)) (plain_target (servers_of_urls e)) p
  | None, Some i => RbOk (plain_target [info_into i]) p
  | None, None => RbOk (plain_target [info_into default_info]) p
  | Some _, Some _ => RbErr UrlAndConnectionSpecified
  end.

(* deadpool_redis::cluster::Config::builder *)
Definition cluster_target (rfr : bool) (servers : list r_info) : redis_target :=
  {| g_servers := servers; g_read_from_replicas := rfr; g_master_name := [];
     g_node := None; g_server_type := RMaster |}.

Definition cluster_builder_of (e : redis_env) (c : cluster_cfg) : redis_builder :=
  let p := pool_or_default (re_dflt_max e) (cc_pool c) in
  let rfr := cc_read_from_replicas c in
  match cc_urls c, cc_connections c with
  | Some _, None => finish (re_accept_urls e) (cluster_target rfr (servers_of_urls e)) p
  | None, Some l => finish (re_accept_connections e) (cluster_target rfr (map info_into l)) p
  | None, None => finish (re_accept_default e) (cluster_target rfr [info_into default_info]) p
  | Some _, Some _ => RbErr UrlAndConnectionSpecified
  end.

(* deadpool_redis::sentinel::Config::builder *)
Definition sentinel_target (c : sentinel_cfg) (servers : list r_info) : redis_target :=
  {| g_servers := servers; g_read_from_replicas := false; g_master_name := sc_master_name c;
     g_node := option_map node_into (sc_node_connection_info c);
     g_server_type := server_type_into (sc_server_type c) |}.

Definition sentinel_builder_of (e : redis_env) (c : sentinel_cfg) : redis_builder :=
  let p := pool_or_default (re_dflt_max e) (sc_pool c) in
  match sc_urls c, sc_connections c with
  | Some _, None => finish (re_accept_urls e) (sentinel_target c (servers_of_urls e)) p
  | None, Some l => finish (re_accept_connections e) (sentinel_target c (map info_into l)) p
  | None, None => finish (re_accept_default e) (sentinel_target c [info_into default_info]) p
  | Some _, Some _ => RbErr UrlAndConnectionSpecified
  end.

(* create_pool of the three flavours: builder, then PoolBuilder::build *)
Inductive redis_pool :=
  | RpConfig (e : redis_config_error)
  | RpBuild (b : build_error)
  | RpOk (g : redis_target) (p : pool_cfg).

Definition redis_pool_of (runtime : bool) (b : redis_builder) : redis_pool :=
  match b with
  | RbErr e => RpConfig e
  | RbOk g p => match build runtime p with inl be => RpBuild be | inr p' => RpOk g p' end
  end.
