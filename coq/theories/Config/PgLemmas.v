(* Lemmas about the Postgres configuration model (C18). Plain Ltac, stdlib only. *)
From Coq Require Import List ZArith Bool Lia.
From DP Require Import Config.Base Config.PgConfig.
Import ListNotations.
Open Scope Z_scope.

(* ---------------------------------------------------------------- totality / error causes *)
Lemma get_pg_config_total : forall e c,
  (exists r, get_pg_config e c = PgOk r) \/ get_pg_config e c = PgInvalidUrl
  \/ get_pg_config e c = PgDbnameMissing \/ get_pg_config e c = PgDbnameEmpty.
Proof.
  intros e c. unfold get_pg_config.
  destruct (base_of e c) as [base|] eqn:Hb.
  - destruct (dbname_effective base c) as [[|x d]|] eqn:Hd.
    + right; right; right; reflexivity.
    + left; eexists; reflexivity.
    + right; right; left; reflexivity.
  - right; left; reflexivity.
Qed.

Lemma invalid_url_iff : forall e c,
  get_pg_config e c = PgInvalidUrl <-> (c_url c <> None /\ e_url e = None).
Proof.
  intros e c. unfold get_pg_config, base_of.
  destruct (c_url c) as [u|] eqn:Hu.
  - destruct (e_url e) as [b|] eqn:He.
    + split.
      * destruct (dbname_effective b c) as [[|x d]|]; discriminate.
      * intros [_ H]; discriminate.
    + split; [intros _; split; [discriminate|reflexivity] | reflexivity].
  - split.
    + destruct (dbname_effective (e_new e) c) as [[|x d]|]; discriminate.
    + intros [H _]; exfalso; apply H; reflexivity.
Qed.

Lemma dbname_missing_iff : forall e c,
  get_pg_config e c = PgDbnameMissing <->
  exists base, base_of e c = Some base /\ dbname_effective base c = None.
Proof.
  intros e c. unfold get_pg_config.
  destruct (base_of e c) as [base|] eqn:Hb.
  - destruct (dbname_effective base c) as [[|x d]|] eqn:Hd.
    + split; [discriminate|]. intros [b [Hb' Hd']]. inversion Hb'; subst b. congruence.
    + split; [discriminate|]. intros [b [Hb' Hd']]. inversion Hb'; subst b. congruence.
    + split; [|reflexivity]. intros _. exists base. split; [reflexivity|assumption].
  - split; [discriminate|]. intros [b [Hb' _]]. discriminate.
Qed.

Lemma dbname_empty_iff : forall e c,
  get_pg_config e c = PgDbnameEmpty <->
  exists base, base_of e c = Some base /\ dbname_effective base c = Some [].
Proof.
  intros e c. unfold get_pg_config.
  destruct (base_of e c) as [base|] eqn:Hb.
  - destruct (dbname_effective base c) as [[|x d]|] eqn:Hd.
    + split; [|reflexivity]. intros _. exists base. split; [reflexivity|assumption].
    + split; [discriminate|]. intros [b [Hb' Hd']]. inversion Hb'; subst b. congruence.
    + split; [discriminate|]. intros [b [Hb' Hd']]. inversion Hb'; subst b. congruence.
  - split; [discriminate|]. intros [b [Hb' _]]. discriminate.
Qed.

(* an Ok result is [apply_cfg] of the base, and carries a non-empty dbname *)
Lemma ok_inv : forall e c r,
  get_pg_config e c = PgOk r ->
  exists base, base_of e c = Some base /\ r = apply_cfg e base c /\
               exists x d, dbname_effective base c = Some (x :: d).
Proof.
  intros e c r H. unfold get_pg_config in H.
  destruct (base_of e c) as [base|] eqn:Hb; [|discriminate].
  destruct (dbname_effective base c) as [[|x d]|] eqn:Hd; try discriminate.
  inversion H; subst r. exists base. split; [reflexivity|]. split; [reflexivity|].
  exists x, d. exact Hd.
Qed.

(* an empty dbname in the Config counts as unset: the URL's dbname is what is judged *)
Lemma dbname_empty_counts_as_unset : forall base c,
  c_dbname c = Some [] -> dbname_effective base c = o_dbname base.
Proof. intros base c H. unfold dbname_effective. rewrite H. reflexivity. Qed.

(* ---------------------------------------------------------------- every option is in effect *)
Lemma filter_nonempty_some : forall s : str, s <> [] -> filter_nonempty (@Some str s) = @Some str s.
Proof. intros [|x s] H; [congruence|reflexivity]. Qed.

Lemma user_set : forall env_user base c u,
  c_user c = Some u -> u <> [] -> user_effective env_user base c = Some u.
Proof.
  intros env_user base c u Hu Hne. unfold user_effective. rewrite Hu.
  rewrite (filter_nonempty_some u Hne). cbn [override_opt].
  rewrite (filter_nonempty_some u Hne). reflexivity.
Qed.

Lemma dbname_set : forall base c d,
  c_dbname c = Some d -> d <> [] -> dbname_effective base c = Some d.
Proof.
  intros base c d Hd Hne. unfold dbname_effective. rewrite Hd.
  rewrite (filter_nonempty_some d Hne). reflexivity.
Qed.

Definition every_option_in_effect (c : pg_cfg) (r : pg_obs) : Prop :=
  (forall u, c_user c = Some u -> u <> [] -> o_user r = Some u) /\
  (forall p, c_password c = Some p -> o_password r = Some p) /\
  (forall d, c_dbname c = Some d -> d <> [] -> o_dbname r = Some d) /\
  (forall s, c_options c = Some s -> o_options r = Some s) /\
  (forall s, c_application_name c = Some s -> o_application_name r = Some s) /\
  (forall m, c_ssl_mode c = Some m -> o_ssl_mode r = ssl_into m) /\
  (forall d, c_connect_timeout c = Some d -> o_connect_timeout r = Some d) /\
  (forall b, c_keepalives c = Some b -> o_keepalives r = b) /\
  (forall d, c_keepalives_idle c = Some d -> o_keepalives_idle r = d) /\
  (forall m, c_target_session_attrs c = Some m -> o_target_session_attrs r = tsa_into m) /\
  (forall m, c_channel_binding c = Some m -> o_channel_binding r = cb_into m) /\
  (forall m, c_load_balance_hosts c = Some m -> o_load_balance_hosts r = lb_into m).

Lemma every_option : forall e c r,
  get_pg_config e c = PgOk r -> every_option_in_effect c r.
Proof.
  intros e c r H. destruct (ok_inv e c r H) as [base [_ [Hr _]]]. subst r.
  unfold every_option_in_effect, apply_cfg; cbn [o_user o_password o_dbname o_options
    o_application_name o_ssl_mode o_connect_timeout o_keepalives o_keepalives_idle
    o_target_session_attrs o_channel_binding o_load_balance_hosts].
  repeat split.
  - intros u Hu Hne. apply user_set; assumption.
  - intros p Hp. rewrite Hp. reflexivity.
  - intros d Hd Hne. apply dbname_set; assumption.
  - intros s Hs. rewrite Hs. reflexivity.
  - intros s Hs. rewrite Hs. reflexivity.
  - intros m Hm. rewrite Hm. reflexivity.
  - intros d Hd. rewrite Hd. reflexivity.
  - intros b Hb. rewrite Hb. reflexivity.
  - intros d Hd. rewrite Hd. reflexivity.
  - intros m Hm. rewrite Hm. reflexivity.
  - intros m Hm. rewrite Hm. reflexivity.
  - intros m Hm. rewrite Hm. reflexivity.
Qed.

(* what is not set in the Config keeps the value of the URL (or of Config::new()) *)
Definition unset_keeps_base (e : pg_env) (c : pg_cfg) (base r : pg_obs) : Prop :=
  (filter_nonempty (c_user c) = None ->
     o_user r = if is_some (filter_nonempty (o_user base)) then o_user base
                else override_opt (e_user e) (o_user base)) /\
  (c_password c = None -> o_password r = o_password base) /\
  (filter_nonempty (c_dbname c) = None -> o_dbname r = o_dbname base) /\
  (c_options c = None -> o_options r = o_options base) /\
  (c_application_name c = None -> o_application_name r = o_application_name base) /\
  (c_ssl_mode c = None -> o_ssl_mode r = o_ssl_mode base) /\
  (c_connect_timeout c = None -> o_connect_timeout r = o_connect_timeout base) /\
  (c_keepalives c = None -> o_keepalives r = o_keepalives base) /\
  (c_keepalives_idle c = None -> o_keepalives_idle r = o_keepalives_idle base) /\
  (c_target_session_attrs c = None -> o_target_session_attrs r = o_target_session_attrs base) /\
  (c_channel_binding c = None -> o_channel_binding r = o_channel_binding base) /\
  (c_load_balance_hosts c = None -> o_load_balance_hosts r = o_load_balance_hosts base) /\
  o_ssl_negotiation r = o_ssl_negotiation base /\
  o_tcp_user_timeout r = o_tcp_user_timeout base /\
  o_keepalives_interval r = o_keepalives_interval base /\
  o_keepalives_retries r = o_keepalives_retries base.

Lemma unset_options : forall e c r base,
  get_pg_config e c = PgOk r -> base_of e c = Some base -> unset_keeps_base e c base r.
Proof.
  intros e c r base H Hb. destruct (ok_inv e c r H) as [base' [Hb' [Hr _]]].
  rewrite Hb in Hb'. inversion Hb'; subst base'. subst r.
  unfold unset_keeps_base, apply_cfg; cbn [o_user o_password o_dbname o_options
    o_application_name o_ssl_mode o_connect_timeout o_keepalives o_keepalives_idle
    o_target_session_attrs o_channel_binding o_load_balance_hosts o_ssl_negotiation
    o_tcp_user_timeout o_keepalives_interval o_keepalives_retries].
  repeat split.
  - intros Hu. unfold user_effective. rewrite Hu. reflexivity.
  - intros Hp. rewrite Hp. reflexivity.
  - intros Hd. unfold dbname_effective. rewrite Hd. reflexivity.
  - intros Hs. rewrite Hs. reflexivity.
  - intros Hs. rewrite Hs. reflexivity.
  - intros Hs. rewrite Hs. reflexivity.
  - intros Hs. rewrite Hs. reflexivity.
  - intros Hs. rewrite Hs. reflexivity.
  - intros Hs. rewrite Hs. reflexivity.
  - intros Hs. rewrite Hs. reflexivity.
  - intros Hs. rewrite Hs. reflexivity.
  - intros Hs. rewrite Hs. reflexivity.
Qed.

(* $USER is consulted exactly when neither the Config nor the URL gives a non-empty user *)
Lemma user_from_env : forall e c r base,
  get_pg_config e c = PgOk r -> base_of e c = Some base ->
  (filter_nonempty (c_user c) = None /\ filter_nonempty (o_user base) = None ->
     o_user r = override_opt (e_user e) (o_user base)) /\
  (filter_nonempty (c_user c) <> None \/ filter_nonempty (o_user base) <> None ->
     o_user r = override_opt (filter_nonempty (c_user c)) (o_user base)).
Proof.
  intros e c r base H Hb. destruct (ok_inv e c r H) as [base' [Hb' [Hr _]]].
  rewrite Hb in Hb'. inversion Hb'; subst base'. subst r.
  unfold apply_cfg; cbn [o_user]. unfold user_effective. split.
  - intros [Hu Hbu]. rewrite Hu. cbn [override_opt]. rewrite Hbu. reflexivity.
  - intros Hor. destruct (filter_nonempty (c_user c)) as [u|] eqn:Hu.
    + cbn [override_opt]. destruct (c_user c) as [u'|]; [|discriminate].
      cbn [filter_nonempty] in Hu. destruct (str_nonempty u') eqn:Hne; [|discriminate].
      inversion Hu; subst u'. cbn [filter_nonempty]. rewrite Hne. reflexivity.
    + cbn [override_opt]. destruct Hor as [Hc|Hbu]; [congruence|].
      destruct (filter_nonempty (o_user base)); [reflexivity|congruence].
Qed.

(* ---------------------------------------------------------------- lists and default hosts *)
Lemma lists : forall e c r base,
  get_pg_config e c = PgOk r -> base_of e c = Some base ->
  o_hostaddrs r = o_hostaddrs base ++ opt_list (c_hostaddr c) ++ opt_lists (c_hostaddrs c) /\
  o_ports r = o_ports base ++ opt_list (c_port c) ++ opt_lists (c_ports c) /\
  (named_hosts (e_unix e) base c <> [] -> o_hosts r = named_hosts (e_unix e) base c) /\
  (named_hosts (e_unix e) base c = [] -> o_hosts r = default_hosts (e_unix e)).
Proof.
  intros e c r base H Hb. destruct (ok_inv e c r H) as [base' [Hb' [Hr _]]].
  rewrite Hb in Hb'. inversion Hb'; subst base'. subst r.
  unfold apply_cfg; cbn [o_hostaddrs o_ports o_hosts].
  split; [reflexivity|]. split; [reflexivity|]. split.
  - intros Hne. destruct (named_hosts (e_unix e) base c); [congruence|reflexivity].
  - intros Hnil. rewrite Hnil. reflexivity.
Qed.

Lemma named_hosts_nil_iff : forall unix base c,
  named_hosts unix base c = [] <->
  (o_hosts base = [] /\ c_host c = None /\ (c_hosts c = None \/ c_hosts c = Some [])).
Proof.
  intros unix base c. unfold named_hosts. split.
  - intros H. apply app_eq_nil in H. destruct H as [H1 H2].
    apply app_eq_nil in H2. destruct H2 as [H2 H3].
    split; [assumption|]. split.
    + destruct (c_host c); [discriminate|reflexivity].
    + destruct (c_hosts c) as [[|x l]|]; [right; reflexivity|discriminate|left; reflexivity].
  - intros [H1 [H2 H3]]. rewrite H1, H2. destruct H3 as [H3|H3]; rewrite H3; reflexivity.
Qed.

Lemma default_hosts_nonempty : forall unix, default_hosts unix <> [].
Proof. intros [|]; discriminate. Qed.

(* the default socket directories / 127.0.0.1 are used iff no host is named anywhere *)
Lemma default_host_iff : forall e c r base,
  get_pg_config e c = PgOk r -> base_of e c = Some base ->
  (o_hosts r = default_hosts (e_unix e) /\ o_hosts r <> named_hosts (e_unix e) base c) <->
  (o_hosts base = [] /\ c_host c = None /\ (c_hosts c = None \/ c_hosts c = Some [])).
Proof.
  intros e c r base H Hb.
  destruct (lists e c r base H Hb) as [_ [_ [Hne Hnil]]].
  rewrite <- named_hosts_nil_iff with (unix := e_unix e). split.
  - intros [Hd Hneq]. destruct (named_hosts (e_unix e) base c) as [|h l] eqn:Hn; [reflexivity|].
    exfalso. apply Hneq. apply Hne. discriminate.
  - intros Hn. specialize (Hnil Hn). split; [assumption|].
    rewrite Hnil, Hn. apply default_hosts_nonempty.
Qed.

(* a host string that is set counts as given even when it is empty *)
Lemma host_given_no_default : forall e c r base h,
  get_pg_config e c = PgOk r -> base_of e c = Some base -> c_host c = Some h ->
  o_hosts r = o_hosts base ++ mk_host (e_unix e) h :: map (mk_host (e_unix e)) (opt_lists (c_hosts c)).
Proof.
  intros e c r base h H Hb Hh.
  destruct (lists e c r base H Hb) as [_ [_ [Hne _]]].
  assert (Hn : named_hosts (e_unix e) base c =
               o_hosts base ++ mk_host (e_unix e) h :: map (mk_host (e_unix e)) (opt_lists (c_hosts c))).
  { unfold named_hosts. rewrite Hh. reflexivity. }
  rewrite <- Hn. apply Hne. rewrite Hn. intros Habs. apply app_eq_nil in Habs.
  destruct Habs as [_ Habs]. discriminate.
Qed.

(* ---------------------------------------------------------------- pool / manager pass-through *)
Lemma builder_passthrough : forall e c pg m p,
  builder e c = PbOk pg m p ->
  get_pg_config e c = PgOk pg /\
  m = match c_manager c with Some x => x | None => default_manager end /\
  p = match c_pool c with Some x => x | None => default_pool (e_dflt_max e) end.
Proof.
  intros e c pg m p H. unfold builder in H.
  destruct (get_pg_config e c) as [r| | |] eqn:Hg; try discriminate.
  inversion H; subst. split; [reflexivity|]. split; reflexivity.
Qed.

Lemma builder_err_iff : forall e c err,
  builder e c = PbErr err <-> (get_pg_config e c = err /\ forall r, err <> PgOk r).
Proof.
  intros e c err. unfold builder. destruct (get_pg_config e c) as [r| | |] eqn:Hg.
  - split; [discriminate|]. intros [H1 H2]. exfalso. apply (H2 r). symmetry. assumption.
  - split.
    + intros H; inversion H; subst. split; [reflexivity|]. intros r; discriminate.
    + intros [H1 _]; subst; reflexivity.
  - split.
    + intros H; inversion H; subst. split; [reflexivity|]. intros r; discriminate.
    + intros [H1 _]; subst; reflexivity.
  - split.
    + intros H; inversion H; subst. split; [reflexivity|]. intros r; discriminate.
    + intros [H1 _]; subst; reflexivity.
Qed.

Lemma build_error_iff : forall runtime p,
  build runtime p = inl NoRuntimeSpecified <-> (has_timeouts (p_timeouts p) = true /\ runtime = false).
Proof.
  intros runtime p. unfold build.
  destruct (has_timeouts (p_timeouts p)); destruct runtime; cbn [andb negb]; split;
    try discriminate; try (intros [? ?]; discriminate); auto.
Qed.

Lemma build_ok_unchanged : forall runtime p p', build runtime p = inr p' -> p' = p.
Proof.
  intros runtime p p' H. unfold build in H.
  destruct (has_timeouts (p_timeouts p) && negb runtime); [discriminate|]. inversion H. reflexivity.
Qed.

Lemma create_pool_passthrough : forall e rt c pg m p,
  create_pool e rt c = PpOk pg m p ->
  get_pg_config e c = PgOk pg /\
  m = match c_manager c with Some x => x | None => default_manager end /\
  p = match c_pool c with Some x => x | None => default_pool (e_dflt_max e) end.
Proof.
  intros e rt c pg m p H. unfold create_pool in H.
  destruct (builder e c) as [r|pg' m' p'] eqn:Hb; [discriminate|].
  destruct (build rt p') as [b|p''] eqn:Hbuild; [discriminate|].
  inversion H; subst. apply build_ok_unchanged in Hbuild. subst p.
  apply builder_passthrough. assumption.
Qed.

(* create_pool fails with a build error iff the Config itself is fine, some pool-level
   timeout is set and no runtime is given *)
Lemma create_pool_build_error_iff : forall e rt c b,
  create_pool e rt c = PpBuild b <->
  ((exists r, get_pg_config e c = PgOk r) /\
   has_timeouts (p_timeouts (get_pool_config e c)) = true /\ rt = false).
Proof.
  intros e rt c b. destruct b. unfold create_pool, builder.
  destruct (get_pg_config e c) as [r| | |] eqn:Hg.
  - destruct (build rt (get_pool_config e c)) as [b|p'] eqn:Hbuild.
    + destruct b. split.
      * intros _. apply build_error_iff in Hbuild. destruct Hbuild as [H1 H2].
        split; [exists r; reflexivity|]. split; assumption.
      * reflexivity.
    + split; [discriminate|]. intros [_ [H1 H2]].
      assert (Hx : build rt (get_pool_config e c) = inl NoRuntimeSpecified)
        by (apply build_error_iff; split; assumption).
      congruence.
  - split; [discriminate|]. intros [[r Hr] _]. discriminate.
  - split; [discriminate|]. intros [[r Hr] _]. discriminate.
  - split; [discriminate|]. intros [[r Hr] _]. discriminate.
Qed.

Lemma create_pool_config_error_iff : forall e rt c err,
  create_pool e rt c = PpConfig err <-> (get_pg_config e c = err /\ forall r, err <> PgOk r).
Proof.
  intros e rt c err. rewrite <- builder_err_iff. unfold create_pool.
  destruct (builder e c) as [r|pg m p] eqn:Hb.
  - split; intros H; inversion H; reflexivity.
  - destruct (build rt p); split; discriminate.
Qed.
