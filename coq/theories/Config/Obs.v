(* Observation functions of the config engine: the flat integer rows the harness prints for
   the implementation, produced here from the model, and the evaluation of one case.
   Definitions only. *)
From Coq Require Import List ZArith Bool.
From DP Require Import Config.Base Config.PgConfig Config.RedisConfig Config.Serde Config.Decode.
Import ListNotations.
Open Scope Z_scope.

Definition b2z (b : bool) : Z := if b then 1 else 0.
Definition n2z (n : nat) : Z := Z.of_nat n.

Definition e_str (s : str) : list Z := n2z (length s) :: s.
Definition e_opt {A} (e : A -> list Z) (o : option A) : list Z :=
  match o with Some x => 1 :: e x | None => [0] end.
Definition e_list {A} (e : A -> list Z) (l : list A) : list Z := n2z (length l) :: flat_map e l.
Definition e_int (z : Z) : list Z := [z].
Definition e_dur (d : dur) : list Z := [secs d; nanos d].
Definition e_queue_mode (q : queue_mode) : list Z := match q with Fifo => [0] | Lifo => [1] end.
Definition e_timeouts (t : timeouts) : list Z :=
  e_opt e_dur (t_wait t) ++ e_opt e_dur (t_create t) ++ e_opt e_dur (t_recycle t).
Definition e_pool (p : pool_cfg) : list Z :=
  p_max_size p :: e_timeouts (p_timeouts p) ++ e_queue_mode (p_queue_mode p).

(* ---------------------------------------------------------------- Postgres *)
Definition e_pg_ssl (m : pg_ssl_mode) : Z := match m with PgSslDisable => 0 | PgSslPrefer => 1 | PgSslRequire => 2 end.
Definition e_pg_neg (m : pg_ssl_negotiation) : Z := match m with PgNegPostgres => 0 | PgNegDirect => 1 end.
Definition e_pg_tsa (m : pg_target_session_attrs) : Z :=
  match m with PgTsaAny => 0 | PgTsaReadWrite => 1 | PgTsaReadOnly => 2 end.
Definition e_pg_cb (m : pg_channel_binding) : Z := match m with PgCbDisable => 0 | PgCbPrefer => 1 | PgCbRequire => 2 end.
Definition e_pg_lb (m : pg_load_balance_hosts) : Z := match m with PgLbDisable => 0 | PgLbRandom => 1 end.
Definition e_host (h : host) : list Z := match h with HTcp s => 0 :: e_str s | HUnix s => 1 :: e_str s end.

Definition e_pg_obs (o : pg_obs) : list Z :=
  e_opt e_str (o_user o) ++ e_opt e_str (o_password o) ++ e_opt e_str (o_dbname o)
  ++ e_opt e_str (o_options o) ++ e_opt e_str (o_application_name o) ++ [e_pg_ssl (o_ssl_mode o)]
  ++ e_list e_host (o_hosts o) ++ e_list e_str (o_hostaddrs o) ++ e_list e_int (o_ports o)
  ++ e_opt e_dur (o_connect_timeout o) ++ [b2z (o_keepalives o)] ++ e_dur (o_keepalives_idle o)
  ++ [e_pg_tsa (o_target_session_attrs o); e_pg_cb (o_channel_binding o);
      e_pg_lb (o_load_balance_hosts o); e_pg_neg (o_ssl_negotiation o)]
  ++ e_opt e_dur (o_tcp_user_timeout o) ++ e_opt e_dur (o_keepalives_interval o)
  ++ e_opt e_int (o_keepalives_retries o).

Definition e_manager (m : manager_cfg) : list Z :=
  match m_recycling_method m with
  | RmFast => 0 :: e_str []
  | RmVerified => 1 :: e_str []
  | RmClean => 2 :: e_str []
  | RmCustom s => 3 :: e_str s
  end.

(* 0 ok | 1 invalid url | 2 dbname missing | 3 dbname empty *)
Definition e_pg_err (r : pg_result) : Z :=
  match r with PgOk _ => 0 | PgInvalidUrl => 1 | PgDbnameMissing => 2 | PgDbnameEmpty => 3 end.

Definition e_pg_result (r : pg_result) : list Z :=
  match r with PgOk o => 0 :: e_pg_obs o | err => [e_pg_err err] end.

Definition e_pg_builder (b : pg_builder) : list Z :=
  match b with
  | PbOk _ m p => 0 :: e_manager m ++ e_pool p
  | PbErr err => [e_pg_err err]
  end.

(* 0 pool | 1 config error kind | 2 build error *)
Definition e_pg_pool (p : pg_pool) : list Z :=
  match p with
  | PpOk _ _ pc => 0 :: e_pool pc
  | PpConfig err => [1; e_pg_err err]
  | PpBuild NoRuntimeSpecified => [2]
  end.

(* every observation row is prefixed by its length (see lib/corr.py split_obs) *)
Definition frame (o : list Z) : list Z := n2z (length o) :: o.

(* rows: 0 the Config, 1 what the harness put into $USER (not read), 2 env::var("USER"),
   3 Config::new(), 4 Config::from_str(url) *)
Definition run_pg (cfg : list Z) (rows : list (list Z)) : list Z :=
  let c := parse rd_pg_cfg (row rows 0) in
  let e := {| e_unix := negb (nthz cfg 1 =? 0);
              e_new := parse rd_pg_obs (row rows 3);
              e_url := parse (rd_opt rd_pg_obs) (row rows 4);
              e_user := parse (rd_opt rd_str) (row rows 2);
              e_dflt_max := nthz cfg 2 |} in
  let rt := negb (nthz cfg 3 =? 0) in
  frame (e_pg_result (get_pg_config e c)) ++ frame (e_pg_builder (builder e c))
  ++ frame (e_pg_pool (create_pool e rt c)).

(* ---------------------------------------------------------------- Redis *)
Definition e_daddr (a : connection_addr) : list Z :=
  match a with
  | DTcp h p => 0 :: e_str h ++ [p]
  | DTcpTls h p i => 1 :: e_str h ++ [p; b2z i]
  | DUnix s => 2 :: e_str s
  end.
Definition e_raddr (a : r_addr) : list Z :=
  match a with
  | RTcp h p => 0 :: e_str h ++ [p]
  | RTcpTls h p i t => 1 :: e_str h ++ [p; b2z i; b2z t]
  | RUnix s => 2 :: e_str s
  end.
Definition e_dredis (r : redis_connection_info) : list Z :=
  d_db r :: e_opt e_str (d_username r) ++ e_opt e_str (d_password r)
  ++ [match d_protocol r with DRESP2 => 0 | DRESP3 => 1 end].
Definition e_rredis (r : r_redis) : list Z :=
  r_db r :: e_opt e_str (r_username r) ++ e_opt e_str (r_password r)
  ++ [match r_protocol_of r with RRESP2 => 0 | RRESP3 => 1 end].
Definition e_dinfo (i : connection_info) : list Z := e_daddr (d_addr i) ++ e_dredis (d_redis i).
Definition e_rinfo (i : r_info) : list Z := e_raddr (r_addr_of i) ++ e_rredis (r_redis_of i).
Definition e_dtls (t : tls_mode) : list Z := match t with DSecure => [0] | DInsecure => [1] end.
Definition e_rtls (t : r_tls_mode) : list Z := match t with RSecure => [0] | RInsecure => [1] end.
Definition e_dstype (t : sentinel_server_type) : Z := match t with DMaster => 0 | DReplica => 1 end.
Definition e_rstype (t : r_server_type) : Z := match t with RMaster => 0 | RReplica => 1 end.
Definition e_dnode (n : sentinel_node_connection_info) : list Z :=
  e_opt e_dtls (d_tls_mode n) ++ e_opt e_dredis (d_redis_connection_info n).
Definition e_rnode (n : r_node) : list Z :=
  e_opt e_rtls (r_tls_mode_of n) ++ e_opt e_rredis (r_redis_connection_info n).

Definition e_target (g : redis_target) : list Z :=
  e_list e_rinfo (g_servers g) ++ [b2z (g_read_from_replicas g)] ++ e_str (g_master_name g)
  ++ e_opt e_rnode (g_node g) ++ [e_rstype (g_server_type g)].

(* 0 ok | 1 url and connection specified | 2 redis error *)
Definition e_redis_err (e : redis_config_error) : Z :=
  match e with UrlAndConnectionSpecified => 1 | Redis => 2 end.

Definition e_redis_builder (b : redis_builder) : list Z :=
  match b with RbOk _ p => 0 :: e_pool p | RbErr e => [e_redis_err e] end.
Definition e_redis_pool (p : redis_pool) : list Z :=
  match p with
  | RpOk _ pc => 0 :: e_pool pc
  | RpConfig e => [1; e_redis_err e]
  | RpBuild NoRuntimeSpecified => [2]
  end.
Definition e_redis_named (b : redis_builder) : list Z :=
  match b with RbOk g _ => e_target g | RbErr _ => [] end.

Definition run_redis_builder (rt : bool) (b : redis_builder) : list Z :=
  frame (e_redis_builder b) ++ frame (e_redis_pool (redis_pool_of rt b)) ++ frame (e_redis_named b).

Definition run_redis (cfg : list Z) (rows : list (list Z)) : list Z :=
  let k := nthz cfg 0 in
  let e := parse (rd_redis_env (nthz cfg 1)) (row rows 1) in
  let rt := negb (nthz cfg 2 =? 0) in
  if k =? 2 then run_redis_builder rt (redis_builder_of e (parse rd_redis_cfg (row rows 0)))
  else if k =? 3 then run_redis_builder rt (cluster_builder_of e (parse rd_cluster_cfg (row rows 0)))
  else run_redis_builder rt (sentinel_builder_of e (parse rd_sentinel_cfg (row rows 0))).

Definition run_conv (rows : list (list Z)) : list Z :=
  let di := parse rd_dinfo (row rows 0) in
  let ri := parse rd_rinfo (row rows 1) in
  let dn := parse rd_dnode (row rows 2) in
  let rn := parse rd_rnode (row rows 3) in
  let misc := row rows 4 in
  frame (e_rinfo (info_into di)) ++ frame (e_dinfo (info_from (info_into di)))
  ++ frame (e_dinfo (info_from ri)) ++ frame (e_rinfo (info_into (info_from ri)))
  ++ frame (e_rnode (node_into dn)) ++ frame (e_dnode (node_from (node_into dn)))
  ++ frame (e_dnode (node_from rn)) ++ frame (e_rnode (node_into (node_from rn)))
  ++ frame [e_rstype (server_type_into (dec_dstype (nthz misc 0)));
            e_dstype (server_type_from (dec_rstype (nthz misc 1)))]
  ++ frame (e_rtls (tls_into (dec_dtls (nthz misc 2))) ++ e_dtls (tls_from (dec_rtls (nthz misc 3))))
  ++ frame (e_raddr (addr_into (d_addr di))) ++ frame (e_rredis (redis_into (d_redis di)))
  ++ frame (e_daddr (addr_from (r_addr_of ri))) ++ frame (e_dredis (redis_from (r_redis_of ri))).

(* ---------------------------------------------------------------- serde *)
Fixpoint e_tree (t : tree) : list Z :=
  match t with
  | TNull => [0]
  | TBool b => [1; b2z b]
  | TNum z => [2; z]
  | TStr s => 3 :: e_str s
  | TMap m =>
      4 :: n2z (length m) ::
      (fix go (m : list (str * tree)) : list Z :=
         match m with
         | [] => []
         | (k, v) :: m' => e_str k ++ e_tree v ++ go m'
         end) m
  end.

(* cfg = [6; mode of the reader; what; kind of serialisation; source of the tree];
   rows: 0 the value, 1 the tree that is read. The third row stands for the text round trip
   of serde_json, which the harness checks by itself. *)
Definition run_serde (cfg : list Z) (rows : list (list Z)) : list Z :=
  let m := if nthz cfg 1 =? 0 then Typed else Lenient in
  let what := nthz cfg 2 in
  let env := negb (nthz cfg 3 =? 0) in
  let t := parse (rd_tree 8) (row rows 1) in
  if what =? 0 then
    let v := parse rd_pool (row rows 0) in
    frame (e_tree (if env then env_pool v else ser_pool v)) ++ frame (e_opt e_pool (de_pool m t))
    ++ frame [1]
  else if what =? 1 then
    let v := parse rd_timeouts (row rows 0) in
    frame (e_tree (if env then env_timeouts v else ser_timeouts v))
    ++ frame (e_opt e_timeouts (de_timeouts m t)) ++ frame [1]
  else
    let v := parse rd_queue_mode (row rows 0) in
    frame (e_tree (if env then env_queue_mode v else ser_queue_mode v))
    ++ frame (e_opt e_queue_mode (de_queue_mode m t)) ++ frame [1].

(* ---------------------------------------------------------------- one case *)
Definition run_case_z (x : list Z * list (list Z)) : list Z :=
  let cfg := fst x in
  let rows := snd x in
  let k := nthz cfg 0 in
  if k =? 1 then run_pg cfg rows
  else if k =? 5 then run_conv rows
  else if k =? 6 then run_serde cfg rows
  else run_redis cfg rows.
