(* Task tables: lists indexed by task id, with pointwise update and sums over the table. *)
From Coq Require Import List ZArith Lia Bool Arith.
Import ListNotations.
Open Scope Z_scope.

Section Tab.
  Context {A : Type} (d : A).

  Fixpoint upd (t : nat) (x : A) (l : list A) : list A :=
    match t, l with
    | O, [] => [x]
    | O, _ :: l' => x :: l'
    | S t', [] => d :: upd t' x []
    | S t', y :: l' => y :: upd t' x l'
    end.

  Definition get (t : nat) (l : list A) : A := nth t l d.

  Fixpoint sum (f : A -> Z) (l : list A) : Z :=
    match l with [] => 0 | x :: l' => f x + sum f l' end.

  Lemma sum_upd f t x l : f d = 0 -> sum f (upd t x l) = sum f l - f (get t l) + f x.
  Proof.
    intros Hd. revert l; induction t as [|t IH]; intros [|y l]; cbn [upd sum get nth].
    - lia.
    - lia.
    - specialize (IH []). cbn [sum get nth] in IH. unfold get in IH.
      destruct t; cbn [nth] in IH; lia.
    - specialize (IH l). unfold get in IH. lia.
  Qed.

  Lemma get_upd_same t x l : get t (upd t x l) = x.
  Proof. unfold get. revert l; induction t as [|t IH]; intros [|y l]; cbn [upd nth]; auto. Qed.

  Lemma get_upd_other t t' x l : t <> t' -> get t' (upd t x l) = get t' l.
  Proof.
    unfold get. revert t' l; induction t as [|t IH]; intros [|t'] [|y l] Hne;
      cbn [upd nth]; try congruence; auto.
    - destruct t'; reflexivity.
    - rewrite IH by congruence. destruct t'; reflexivity.
  Qed.

  Lemma sum_nonneg f l : (forall x, 0 <= f x) -> 0 <= sum f l.
  Proof. intros H; induction l as [|x l IH]; cbn [sum]; [lia|]. specialize (H x). lia. Qed.

  Lemma sum_le f g l : (forall x, f x <= g x) -> sum f l <= sum g l.
  Proof. intros H; induction l as [|x l IH]; cbn [sum]; [lia|]. specialize (H x). lia. Qed.

  Lemma sum_le_except f g t l :
    f d = 0 -> g d = 0 -> (forall x, f x <= g x) ->
    sum f l - f (get t l) <= sum g l - g (get t l).
  Proof.
    intros Hf Hg H. pose proof (sum_le f g (upd t d l) H) as K.
    rewrite !sum_upd in K by assumption. lia.
  Qed.

  Lemma sum_ge_get f t l : f d = 0 -> (forall x, 0 <= f x) -> f (get t l) <= sum f l.
  Proof.
    intros Hd H. pose proof (sum_nonneg f (upd t d l) H) as K.
    rewrite sum_upd in K by assumption. lia.
  Qed.

  Lemma sum_ext f g l : (forall x, f x = g x) -> sum f l = sum g l.
  Proof. intros H; induction l as [|x l IH]; cbn [sum]; [lia|]. rewrite H, IH. reflexivity. Qed.

  Lemma sum_plus f g l : sum (fun x => f x + g x) l = sum f l + sum g l.
  Proof. induction l as [|x l IH]; cbn [sum]; lia. Qed.

  Lemma sum_minus f g l : sum (fun x => f x - g x) l = sum f l - sum g l.
  Proof. induction l as [|x l IH]; cbn [sum]; lia. Qed.

  Lemma sum_app f l1 l2 : sum f (l1 ++ l2) = sum f l1 + sum f l2.
  Proof. induction l1 as [|x l IH]; cbn [sum app]; lia. Qed.

  Lemma get_beyond t l : (length l <= t)%nat -> get t l = d.
  Proof. unfold get. apply nth_overflow. Qed.

  Lemma upd_length_ge t x l : (length l <= t)%nat -> length (upd t x l) = S t.
  Proof.
    revert l; induction t as [|t IH]; intros [|y l] H; cbn [upd length] in *; try lia.
    - rewrite IH; cbn [length]; lia.
    - rewrite IH; lia.
  Qed.

  Lemma upd_length_lt t x l : (t < length l)%nat -> length (upd t x l) = length l.
  Proof.
    revert l; induction t as [|t IH]; intros [|y l] H; cbn [upd length] in *; try lia.
    rewrite IH; lia.
  Qed.

  Lemma upd_append x l : upd (length l) x l = l ++ [x].
  Proof. induction l as [|y l IH]; cbn [upd length app]; [reflexivity|]. rewrite IH. reflexivity. Qed.
End Tab.
