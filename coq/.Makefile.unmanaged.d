theories/Common/Tab.vo theories/Common/Tab.glob theories/Common/Tab.v.beautified theories/Common/Tab.required_vo: theories/Common/Tab.v 
theories/Common/Tab.vio: theories/Common/Tab.v 
theories/Common/Tab.vos theories/Common/Tab.vok theories/Common/Tab.required_vos: theories/Common/Tab.v 
theories/Unmanaged/Model.vo theories/Unmanaged/Model.glob theories/Unmanaged/Model.v.beautified theories/Unmanaged/Model.required_vo: theories/Unmanaged/Model.v theories/Common/Tab.vo
theories/Unmanaged/Model.vio: theories/Unmanaged/Model.v theories/Common/Tab.vio
theories/Unmanaged/Model.vos theories/Unmanaged/Model.vok theories/Unmanaged/Model.required_vos: theories/Unmanaged/Model.v theories/Common/Tab.vos
theories/Unmanaged/Obs.vo theories/Unmanaged/Obs.glob theories/Unmanaged/Obs.v.beautified theories/Unmanaged/Obs.required_vo: theories/Unmanaged/Obs.v theories/Common/Tab.vo theories/Unmanaged/Model.vo
theories/Unmanaged/Obs.vio: theories/Unmanaged/Obs.v theories/Common/Tab.vio theories/Unmanaged/Model.vio
theories/Unmanaged/Obs.vos theories/Unmanaged/Obs.vok theories/Unmanaged/Obs.required_vos: theories/Unmanaged/Obs.v theories/Common/Tab.vos theories/Unmanaged/Model.vos
theories/Unmanaged/Decode.vo theories/Unmanaged/Decode.glob theories/Unmanaged/Decode.v.beautified theories/Unmanaged/Decode.required_vo: theories/Unmanaged/Decode.v theories/Common/Tab.vo theories/Unmanaged/Model.vo theories/Unmanaged/Obs.vo
theories/Unmanaged/Decode.vio: theories/Unmanaged/Decode.v theories/Common/Tab.vio theories/Unmanaged/Model.vio theories/Unmanaged/Obs.vio
theories/Unmanaged/Decode.vos theories/Unmanaged/Decode.vok theories/Unmanaged/Decode.required_vos: theories/Unmanaged/Decode.v theories/Common/Tab.vos theories/Unmanaged/Model.vos theories/Unmanaged/Obs.vos
