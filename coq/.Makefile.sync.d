theories/Sync/Model.vo theories/Sync/Model.glob theories/Sync/Model.v.beautified theories/Sync/Model.required_vo: theories/Sync/Model.v 
theories/Sync/Model.vio: theories/Sync/Model.v 
theories/Sync/Model.vos theories/Sync/Model.vok theories/Sync/Model.required_vos: theories/Sync/Model.v 
theories/Sync/Obs.vo theories/Sync/Obs.glob theories/Sync/Obs.v.beautified theories/Sync/Obs.required_vo: theories/Sync/Obs.v theories/Sync/Model.vo
theories/Sync/Obs.vio: theories/Sync/Obs.v theories/Sync/Model.vio
theories/Sync/Obs.vos theories/Sync/Obs.vok theories/Sync/Obs.required_vos: theories/Sync/Obs.v theories/Sync/Model.vos
theories/Sync/Decode.vo theories/Sync/Decode.glob theories/Sync/Decode.v.beautified theories/Sync/Decode.required_vo: theories/Sync/Decode.v theories/Sync/Model.vo theories/Sync/Obs.vo
theories/Sync/Decode.vio: theories/Sync/Decode.v theories/Sync/Model.vio theories/Sync/Obs.vio
theories/Sync/Decode.vos theories/Sync/Decode.vok theories/Sync/Decode.required_vos: theories/Sync/Decode.v theories/Sync/Model.vos theories/Sync/Obs.vos
theories/Sync/Inv.vo theories/Sync/Inv.glob theories/Sync/Inv.v.beautified theories/Sync/Inv.required_vo: theories/Sync/Inv.v theories/Sync/Model.vo
theories/Sync/Inv.vio: theories/Sync/Inv.v theories/Sync/Model.vio
theories/Sync/Inv.vos theories/Sync/Inv.vok theories/Sync/Inv.required_vos: theories/Sync/Inv.v theories/Sync/Model.vos
theories/Sync/Facts.vo theories/Sync/Facts.glob theories/Sync/Facts.v.beautified theories/Sync/Facts.required_vo: theories/Sync/Facts.v theories/Sync/Model.vo theories/Sync/Inv.vo
theories/Sync/Facts.vio: theories/Sync/Facts.v theories/Sync/Model.vio theories/Sync/Inv.vio
theories/Sync/Facts.vos theories/Sync/Facts.vok theories/Sync/Facts.required_vos: theories/Sync/Facts.v theories/Sync/Model.vos theories/Sync/Inv.vos
theories/Props/C14.vo theories/Props/C14.glob theories/Props/C14.v.beautified theories/Props/C14.required_vo: theories/Props/C14.v theories/Sync/Model.vo theories/Sync/Inv.vo theories/Sync/Facts.vo
theories/Props/C14.vio: theories/Props/C14.v theories/Sync/Model.vio theories/Sync/Inv.vio theories/Sync/Facts.vio
theories/Props/C14.vos theories/Props/C14.vok theories/Props/C14.required_vos: theories/Props/C14.v theories/Sync/Model.vos theories/Sync/Inv.vos theories/Sync/Facts.vos
theories/Common/Tab.vo theories/Common/Tab.glob theories/Common/Tab.v.beautified theories/Common/Tab.required_vo: theories/Common/Tab.v 
theories/Common/Tab.vio: theories/Common/Tab.v 
theories/Common/Tab.vos theories/Common/Tab.vok theories/Common/Tab.required_vos: theories/Common/Tab.v 
theories/Managed/Model.vo theories/Managed/Model.glob theories/Managed/Model.v.beautified theories/Managed/Model.required_vo: theories/Managed/Model.v theories/Common/Tab.vo
theories/Managed/Model.vio: theories/Managed/Model.v theories/Common/Tab.vio
theories/Managed/Model.vos theories/Managed/Model.vok theories/Managed/Model.required_vos: theories/Managed/Model.v theories/Common/Tab.vos
theories/Sync/Mgr.vo theories/Sync/Mgr.glob theories/Sync/Mgr.v.beautified theories/Sync/Mgr.required_vo: theories/Sync/Mgr.v theories/Managed/Model.vo
theories/Sync/Mgr.vio: theories/Sync/Mgr.v theories/Managed/Model.vio
theories/Sync/Mgr.vos theories/Sync/Mgr.vok theories/Sync/Mgr.required_vos: theories/Sync/Mgr.v theories/Managed/Model.vos
theories/Sync/Pool.vo theories/Sync/Pool.glob theories/Sync/Pool.v.beautified theories/Sync/Pool.required_vo: theories/Sync/Pool.v theories/Common/Tab.vo theories/Managed/Model.vo theories/Sync/Mgr.vo
theories/Sync/Pool.vio: theories/Sync/Pool.v theories/Common/Tab.vio theories/Managed/Model.vio theories/Sync/Mgr.vio
theories/Sync/Pool.vos theories/Sync/Pool.vok theories/Sync/Pool.required_vos: theories/Sync/Pool.v theories/Common/Tab.vos theories/Managed/Model.vos theories/Sync/Mgr.vos
