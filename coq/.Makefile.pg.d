theories/Mgr/ListAux.vo theories/Mgr/ListAux.glob theories/Mgr/ListAux.v.beautified theories/Mgr/ListAux.required_vo: theories/Mgr/ListAux.v 
theories/Mgr/ListAux.vio: theories/Mgr/ListAux.v 
theories/Mgr/ListAux.vos theories/Mgr/ListAux.vok theories/Mgr/ListAux.required_vos: theories/Mgr/ListAux.v 
theories/Mgr/Postgres.vo theories/Mgr/Postgres.glob theories/Mgr/Postgres.v.beautified theories/Mgr/Postgres.required_vo: theories/Mgr/Postgres.v 
theories/Mgr/Postgres.vio: theories/Mgr/Postgres.v 
theories/Mgr/Postgres.vos theories/Mgr/Postgres.vok theories/Mgr/Postgres.required_vos: theories/Mgr/Postgres.v 
theories/Mgr/PostgresObs.vo theories/Mgr/PostgresObs.glob theories/Mgr/PostgresObs.v.beautified theories/Mgr/PostgresObs.required_vo: theories/Mgr/PostgresObs.v theories/Mgr/Postgres.vo
theories/Mgr/PostgresObs.vio: theories/Mgr/PostgresObs.v theories/Mgr/Postgres.vio
theories/Mgr/PostgresObs.vos theories/Mgr/PostgresObs.vok theories/Mgr/PostgresObs.required_vos: theories/Mgr/PostgresObs.v theories/Mgr/Postgres.vos
theories/Mgr/PostgresCache.vo theories/Mgr/PostgresCache.glob theories/Mgr/PostgresCache.v.beautified theories/Mgr/PostgresCache.required_vo: theories/Mgr/PostgresCache.v theories/Mgr/ListAux.vo theories/Mgr/Postgres.vo
theories/Mgr/PostgresCache.vio: theories/Mgr/PostgresCache.v theories/Mgr/ListAux.vio theories/Mgr/Postgres.vio
theories/Mgr/PostgresCache.vos theories/Mgr/PostgresCache.vok theories/Mgr/PostgresCache.required_vos: theories/Mgr/PostgresCache.v theories/Mgr/ListAux.vos theories/Mgr/Postgres.vos
theories/Mgr/PostgresInv.vo theories/Mgr/PostgresInv.glob theories/Mgr/PostgresInv.v.beautified theories/Mgr/PostgresInv.required_vo: theories/Mgr/PostgresInv.v theories/Mgr/ListAux.vo theories/Mgr/Postgres.vo theories/Mgr/PostgresCache.vo
theories/Mgr/PostgresInv.vio: theories/Mgr/PostgresInv.v theories/Mgr/ListAux.vio theories/Mgr/Postgres.vio theories/Mgr/PostgresCache.vio
theories/Mgr/PostgresInv.vos theories/Mgr/PostgresInv.vok theories/Mgr/PostgresInv.required_vos: theories/Mgr/PostgresInv.v theories/Mgr/ListAux.vos theories/Mgr/Postgres.vos theories/Mgr/PostgresCache.vos
theories/Mgr/Registry.vo theories/Mgr/Registry.glob theories/Mgr/Registry.v.beautified theories/Mgr/Registry.required_vo: theories/Mgr/Registry.v theories/Mgr/ListAux.vo theories/Mgr/Postgres.vo theories/Mgr/PostgresInv.vo
theories/Mgr/Registry.vio: theories/Mgr/Registry.v theories/Mgr/ListAux.vio theories/Mgr/Postgres.vio theories/Mgr/PostgresInv.vio
theories/Mgr/Registry.vos theories/Mgr/Registry.vok theories/Mgr/Registry.required_vos: theories/Mgr/Registry.v theories/Mgr/ListAux.vos theories/Mgr/Postgres.vos theories/Mgr/PostgresInv.vos
theories/Mgr/PostgresC16.vo theories/Mgr/PostgresC16.glob theories/Mgr/PostgresC16.v.beautified theories/Mgr/PostgresC16.required_vo: theories/Mgr/PostgresC16.v theories/Mgr/ListAux.vo theories/Mgr/Postgres.vo theories/Mgr/PostgresCache.vo theories/Mgr/PostgresInv.vo
theories/Mgr/PostgresC16.vio: theories/Mgr/PostgresC16.v theories/Mgr/ListAux.vio theories/Mgr/Postgres.vio theories/Mgr/PostgresCache.vio theories/Mgr/PostgresInv.vio
theories/Mgr/PostgresC16.vos theories/Mgr/PostgresC16.vok theories/Mgr/PostgresC16.required_vos: theories/Mgr/PostgresC16.v theories/Mgr/ListAux.vos theories/Mgr/Postgres.vos theories/Mgr/PostgresCache.vos theories/Mgr/PostgresInv.vos
theories/Mgr/Redis.vo theories/Mgr/Redis.glob theories/Mgr/Redis.v.beautified theories/Mgr/Redis.required_vo: theories/Mgr/Redis.v 
theories/Mgr/Redis.vio: theories/Mgr/Redis.v 
theories/Mgr/Redis.vos theories/Mgr/Redis.vok theories/Mgr/Redis.required_vos: theories/Mgr/Redis.v 
theories/Mgr/RedisObs.vo theories/Mgr/RedisObs.glob theories/Mgr/RedisObs.v.beautified theories/Mgr/RedisObs.required_vo: theories/Mgr/RedisObs.v theories/Mgr/Redis.vo
theories/Mgr/RedisObs.vio: theories/Mgr/RedisObs.v theories/Mgr/Redis.vio
theories/Mgr/RedisObs.vos theories/Mgr/RedisObs.vok theories/Mgr/RedisObs.required_vos: theories/Mgr/RedisObs.v theories/Mgr/Redis.vos
theories/Mgr/RedisInv.vo theories/Mgr/RedisInv.glob theories/Mgr/RedisInv.v.beautified theories/Mgr/RedisInv.required_vo: theories/Mgr/RedisInv.v theories/Mgr/ListAux.vo theories/Mgr/Redis.vo
theories/Mgr/RedisInv.vio: theories/Mgr/RedisInv.v theories/Mgr/ListAux.vio theories/Mgr/Redis.vio
theories/Mgr/RedisInv.vos theories/Mgr/RedisInv.vok theories/Mgr/RedisInv.required_vos: theories/Mgr/RedisInv.v theories/Mgr/ListAux.vos theories/Mgr/Redis.vos
theories/Props/C17.vo theories/Props/C17.glob theories/Props/C17.v.beautified theories/Props/C17.required_vo: theories/Props/C17.v theories/Mgr/Redis.vo theories/Mgr/RedisInv.vo
theories/Props/C17.vio: theories/Props/C17.v theories/Mgr/Redis.vio theories/Mgr/RedisInv.vio
theories/Props/C17.vos theories/Props/C17.vok theories/Props/C17.required_vos: theories/Props/C17.v theories/Mgr/Redis.vos theories/Mgr/RedisInv.vos
theories/Props/C16.vo theories/Props/C16.glob theories/Props/C16.v.beautified theories/Props/C16.required_vo: theories/Props/C16.v theories/Mgr/Postgres.vo theories/Mgr/PostgresCache.vo theories/Mgr/PostgresInv.vo theories/Mgr/PostgresC16.vo theories/Mgr/Registry.vo
theories/Props/C16.vio: theories/Props/C16.v theories/Mgr/Postgres.vio theories/Mgr/PostgresCache.vio theories/Mgr/PostgresInv.vio theories/Mgr/PostgresC16.vio theories/Mgr/Registry.vio
theories/Props/C16.vos theories/Props/C16.vok theories/Props/C16.required_vos: theories/Props/C16.v theories/Mgr/Postgres.vos theories/Mgr/PostgresCache.vos theories/Mgr/PostgresInv.vos theories/Mgr/PostgresC16.vos theories/Mgr/Registry.vos
