theories/Config/Base.vo theories/Config/Base.glob theories/Config/Base.v.beautified theories/Config/Base.required_vo: theories/Config/Base.v 
theories/Config/Base.vio: theories/Config/Base.v 
theories/Config/Base.vos theories/Config/Base.vok theories/Config/Base.required_vos: theories/Config/Base.v 
theories/Config/PgConfig.vo theories/Config/PgConfig.glob theories/Config/PgConfig.v.beautified theories/Config/PgConfig.required_vo: theories/Config/PgConfig.v theories/Config/Base.vo
theories/Config/PgConfig.vio: theories/Config/PgConfig.v theories/Config/Base.vio
theories/Config/PgConfig.vos theories/Config/PgConfig.vok theories/Config/PgConfig.required_vos: theories/Config/PgConfig.v theories/Config/Base.vos
theories/Config/PgLemmas.vo theories/Config/PgLemmas.glob theories/Config/PgLemmas.v.beautified theories/Config/PgLemmas.required_vo: theories/Config/PgLemmas.v theories/Config/Base.vo theories/Config/PgConfig.vo
theories/Config/PgLemmas.vio: theories/Config/PgLemmas.v theories/Config/Base.vio theories/Config/PgConfig.vio
theories/Config/PgLemmas.vos theories/Config/PgLemmas.vok theories/Config/PgLemmas.required_vos: theories/Config/PgLemmas.v theories/Config/Base.vos theories/Config/PgConfig.vos
theories/Config/RedisConfig.vo theories/Config/RedisConfig.glob theories/Config/RedisConfig.v.beautified theories/Config/RedisConfig.required_vo: theories/Config/RedisConfig.v theories/Config/Base.vo
theories/Config/RedisConfig.vio: theories/Config/RedisConfig.v theories/Config/Base.vio
theories/Config/RedisConfig.vos theories/Config/RedisConfig.vok theories/Config/RedisConfig.required_vos: theories/Config/RedisConfig.v theories/Config/Base.vos
theories/Config/RedisLemmas.vo theories/Config/RedisLemmas.glob theories/Config/RedisLemmas.v.beautified theories/Config/RedisLemmas.required_vo: theories/Config/RedisLemmas.v theories/Config/Base.vo theories/Config/RedisConfig.vo
theories/Config/RedisLemmas.vio: theories/Config/RedisLemmas.v theories/Config/Base.vio theories/Config/RedisConfig.vio
theories/Config/RedisLemmas.vos theories/Config/RedisLemmas.vok theories/Config/RedisLemmas.required_vos: theories/Config/RedisLemmas.v theories/Config/Base.vos theories/Config/RedisConfig.vos
theories/Config/Serde.vo theories/Config/Serde.glob theories/Config/Serde.v.beautified theories/Config/Serde.required_vo: theories/Config/Serde.v theories/Config/Base.vo
theories/Config/Serde.vio: theories/Config/Serde.v theories/Config/Base.vio
theories/Config/Serde.vos theories/Config/Serde.vok theories/Config/Serde.required_vos: theories/Config/Serde.v theories/Config/Base.vos
theories/Config/SerdeLemmas.vo theories/Config/SerdeLemmas.glob theories/Config/SerdeLemmas.v.beautified theories/Config/SerdeLemmas.required_vo: theories/Config/SerdeLemmas.v theories/Config/Base.vo theories/Config/Serde.vo
theories/Config/SerdeLemmas.vio: theories/Config/SerdeLemmas.v theories/Config/Base.vio theories/Config/Serde.vio
theories/Config/SerdeLemmas.vos theories/Config/SerdeLemmas.vok theories/Config/SerdeLemmas.required_vos: theories/Config/SerdeLemmas.v theories/Config/Base.vos theories/Config/Serde.vos
theories/Config/Decode.vo theories/Config/Decode.glob theories/Config/Decode.v.beautified theories/Config/Decode.required_vo: theories/Config/Decode.v theories/Config/Base.vo theories/Config/PgConfig.vo theories/Config/RedisConfig.vo theories/Config/Serde.vo
theories/Config/Decode.vio: theories/Config/Decode.v theories/Config/Base.vio theories/Config/PgConfig.vio theories/Config/RedisConfig.vio theories/Config/Serde.vio
theories/Config/Decode.vos theories/Config/Decode.vok theories/Config/Decode.required_vos: theories/Config/Decode.v theories/Config/Base.vos theories/Config/PgConfig.vos theories/Config/RedisConfig.vos theories/Config/Serde.vos
theories/Config/Obs.vo theories/Config/Obs.glob theories/Config/Obs.v.beautified theories/Config/Obs.required_vo: theories/Config/Obs.v theories/Config/Base.vo theories/Config/PgConfig.vo theories/Config/RedisConfig.vo theories/Config/Serde.vo theories/Config/Decode.vo
theories/Config/Obs.vio: theories/Config/Obs.v theories/Config/Base.vio theories/Config/PgConfig.vio theories/Config/RedisConfig.vio theories/Config/Serde.vio theories/Config/Decode.vio
theories/Config/Obs.vos theories/Config/Obs.vok theories/Config/Obs.required_vos: theories/Config/Obs.v theories/Config/Base.vos theories/Config/PgConfig.vos theories/Config/RedisConfig.vos theories/Config/Serde.vos theories/Config/Decode.vos
theories/Props/C18.vo theories/Props/C18.glob theories/Props/C18.v.beautified theories/Props/C18.required_vo: theories/Props/C18.v theories/Config/Base.vo theories/Config/PgConfig.vo theories/Config/PgLemmas.vo
theories/Props/C18.vio: theories/Props/C18.v theories/Config/Base.vio theories/Config/PgConfig.vio theories/Config/PgLemmas.vio
theories/Props/C18.vos theories/Props/C18.vok theories/Props/C18.required_vos: theories/Props/C18.v theories/Config/Base.vos theories/Config/PgConfig.vos theories/Config/PgLemmas.vos
theories/Props/C19.vo theories/Props/C19.glob theories/Props/C19.v.beautified theories/Props/C19.required_vo: theories/Props/C19.v theories/Config/Base.vo theories/Config/RedisConfig.vo theories/Config/RedisLemmas.vo theories/Config/Serde.vo theories/Config/SerdeLemmas.vo
theories/Props/C19.vio: theories/Props/C19.v theories/Config/Base.vio theories/Config/RedisConfig.vio theories/Config/RedisLemmas.vio theories/Config/Serde.vio theories/Config/SerdeLemmas.vio
theories/Props/C19.vos theories/Props/C19.vok theories/Props/C19.required_vos: theories/Props/C19.v theories/Config/Base.vos theories/Config/RedisConfig.vos theories/Config/RedisLemmas.vos theories/Config/Serde.vos theories/Config/SerdeLemmas.vos
