#!/bin/bash
# usage: tools/run_all_seeds.sh [pattern]   - applies every seeded change in turn, runs the check(s) of the
# property it was written for (plus the ones named in meta.json "also"), reverts it; one line per check
# is appended to seeded/RESULTS.txt
cd /verif
pat=${1:-}
: > seeded/RESULTS.txt
for d in seeded/*${pat}*/; do
  d=${d%/}
  [ -f $d/patch.diff ] || continue
  props=$(python3 - "$d" <<'PY'
import json,re,sys
m=json.load(open(sys.argv[1]+'/meta.json'))
ps=re.findall(r'C\d\d', str(m.get('property') or '')+' '+' '.join(map(str,(m.get('caught_by') or {}).keys())))
seen=[]
for p in ps:
    if p not in seen: seen.append(p)
print(' '.join(seen[:3]) or 'C01')
PY
)
  echo "#### $d [$props]" | tee -a seeded/RESULTS.txt
  tools/run_seed.sh $d $props 2>&1 | grep "=>" | cut -c1-200 | tee -a seeded/RESULTS.txt
done
