#!/bin/bash
# usage: confirm_seed.sh <worktree> <out-subdir e.g. C08> [package] [test dir rel. to worktree] [cargo feature args]
# Confirms in the scratch worktree: (1) demo passes without the change, (2) demo fails with the
# change, (3) the existing suite passes with the change. Leaves tracked files unmodified.
set -u
WT=$1; ID=$2; PKG=${3:-deadpool}; TREL=${4:-tests}; FEAT=${5:---features rt_tokio_1}
D=$WT/out/$ID
export CARGO_NET_OFFLINE=true CARGO_TARGET_DIR=$WT/target
cd $WT || exit 2
git checkout -q -- .
demo=$(ls $D/demo_*.rs | head -1); name=$(basename $demo .rs)
TDIR=$WT/$TREL
mkdir -p $TDIR; rm -f $TDIR/demo_*.rs
cp $demo $TDIR/
echo "== demo without change (must pass)"
cargo test --offline -p $PKG $FEAT --test $name 2>&1 | grep -E "^test result|error\[|error:" | head -5
git apply $D/patch.diff || { echo "PATCH DOES NOT APPLY"; exit 1; }
echo "== demo with change (must fail)"
cargo test --offline -p $PKG $FEAT --test $name 2>&1 | grep -E "^test result|error\[|error:" | head -5
rm -f $TDIR/demo_*.rs
echo "== suite with change (must pass)"
cargo test --offline -p $PKG $FEAT 2>&1 | grep -E "^test result|FAILED|failed|error\[" | sort | uniq -c | head -8
git checkout -q -- .
