#!/bin/bash
# usage: confirm_seed2.sh <worktree> <out-subdir> <package> <tests dir rel. to worktree> "<cargo feature args>"
# like confirm_seed.sh but copies every demo_*.rs of the change and runs each as its own test target;
# the suite step only compares pass counts of tests that do not need a server (prints the summary lines)
set -u
WT=$1; ID=$2; PKG=$3; TREL=$4; FEAT=${5:-}
D=$WT/out/$ID
export CARGO_NET_OFFLINE=true CARGO_TARGET_DIR=$WT/target
cd $WT || exit 2
git checkout -q -- .
TDIR=$WT/$TREL
mkdir -p $TDIR; rm -f $TDIR/demo_*.rs
demos=""
for f in $D/demo_*.rs; do
  n=$(basename $f .rs)
  # a demo belongs to this package if its name is listed or there is only one
  cp $f $TDIR/; demos="$demos $n"
done
run_demos() { for n in $demos; do cargo test --offline -p $PKG $FEAT --test $n 2>&1 | grep -E "^test result|error(\[|:)" | head -3 | sed "s/^/   $n: /"; done; }
echo "== demos without change (must pass)"; run_demos
git apply $D/patch.diff || { echo "PATCH DOES NOT APPLY"; rm -f $TDIR/demo_*.rs; exit 1; }
echo "== demos with change (must fail)"; run_demos
rm -f $TDIR/demo_*.rs
echo "== suite with change"
cargo test --offline -p $PKG $FEAT --no-fail-fast 2>&1 | grep -E "^test result" | sort | uniq -c | head -8
git checkout -q -- .
echo "== suite without change"
cargo test --offline -p $PKG $FEAT --no-fail-fast 2>&1 | grep -E "^test result" | sort | uniq -c | head -8
