#!/bin/bash
# usage: run_seed.sh <seed dir containing patch.diff> <property ids...>
# applies the seeded change to /repo, runs the given checks (quick), reverts the change.
set -u
D=$(realpath $1); shift
cd /verif
git -C /repo apply $D/patch.diff || { echo "PATCH DOES NOT APPLY to /repo"; exit 2; }
for p in "$@"; do
  out=$(./check $p --tier quick 2>&1 | grep -E "VIOLATION|KNOWN|: ok|: VIOLATION" | tr '\n' ' ')
  echo "$p => $out"
done
git -C /repo apply -R $D/patch.diff
git -C /repo status --short | grep -v "^??" | head -3
