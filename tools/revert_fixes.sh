#!/bin/bash
# reverts each fix: commit of /repo in the working tree (no commit), runs the checks of the properties it was for
cd /verif
try() {
  c=$1; shift
  echo "#### revert $c [$*]"
  if git -C /repo revert -n --no-edit $c >/dev/null 2>&1; then
    for p in "$@"; do
      out=$(./check $p --tier quick 2>&1 | grep -E "VIOLATION|: ok" | tr '\n' ' ' | cut -c1-260)
      echo "$p => $out"
    done
  else
    echo "cannot be reverted in isolation (conflicts with later commits)"
  fi
  git -C /repo revert --abort >/dev/null 2>&1
  git -C /repo reset -q --hard HEAD
  git -C /repo status --short | grep -v "^??" | head -3
}
try d2cb3bb C09 C06
try 5173fa0 C07 C02 C06
try f63b28b C06
try 5d6b1e3 C10
try 5633385 C11
try 2a17a75 C07
try 2cd7c30 C12
try 82c86a2 C05
try 68a572a C18
try bd28bfc C14
try d2a4706 C12 C05
