#!/bin/bash
# usage: tools/in_private.sh <name> <command...>
# Runs the command (cwd /verif) with private copies of /repo and /verif bind-mounted over the real ones in a
# mount namespace of its own: for runs that patch /repo while other checks use the real tree. The copies stay
# in /tmp/dpv_private/<name> (remove them when done); output files of the run are in <copy>/verif.
name=$1; shift
S=/tmp/dpv_private/$name
mkdir -p $S
rsync -a --delete --exclude target /repo/ $S/repo/
rsync -a --delete --exclude replays /verif/ $S/verif/
exec unshare -m bash -c "mount --bind $S/repo /repo && mount --bind $S/verif /verif && cd /verif && $*"
