#!/bin/bash
# usage: tools/run_all_seeds_sharded.sh [shards=4] [pattern]
# The full regression over seeded/ in parallel: every shard works on private copies of /repo and /verif that are
# bind-mounted over /repo and /verif in its own mount namespace (the checks and the harness crates name those
# paths), so the real /repo is never touched and other checks can run meanwhile. Needs root (unshare -m).
# Results: seeded/RESULTS.txt (merged, in seed order). Scratch under /tmp/dpv_shards is removed at the end.
N=${1:-4}; pat=${2:-}
S=/tmp/dpv_shards
rm -rf $S; mkdir -p $S
cd /verif
ls -d seeded/*${pat}*/ | sed 's,/$,,' | while read d; do [ -f $d/patch.diff ] && echo $d; done > $S/all.txt
for k in $(seq 0 $((N-1))); do
  mkdir -p $S/$k
  rsync -a --exclude target /repo/ $S/$k/repo/
  rsync -a --exclude replays /verif/ $S/$k/verif/
  awk -v n=$N -v k=$k 'NR % n == k' $S/all.txt > $S/$k/list.txt
  unshare -m bash -c "mount --bind $S/$k/repo /repo && mount --bind $S/$k/verif /verif && cd /verif && tools/run_seed_list.sh $S/$k/list.txt > $S/$k/RESULTS.txt 2>&1" &
done
wait
: > /verif/seeded/RESULTS.txt
while read d; do
  for k in $(seq 0 $((N-1))); do
    awk -v d="#### $d " 'index($0, d)==1 {p=1; print; next} /^####/ {p=0} p' $S/$k/RESULTS.txt
  done
done < $S/all.txt >> /verif/seeded/RESULTS.txt
rm -rf $S
