#!/bin/bash
# usage: tools/run_seed_list.sh <file with seed directories>  - like run_all_seeds.sh for the listed seeds; prints to stdout
cd /verif
while read d; do
  props=$(python3 - "$d" <<'PY'
import json,re,sys
m=json.load(open(sys.argv[1]+'/meta.json'))
ps=re.findall(r'C\d\d', str(m.get('property') or '')+' '+' '.join(map(str,(m.get('caught_by') or {}).keys())))
seen=[]
for p in ps:
    if p not in seen: seen.append(p)
print(' '.join(seen[:3]) or 'C01')
PY
)
  echo "#### $d [$props]"
  tools/run_seed.sh $d $props 2>&1 | grep "=>" | cut -c1-200
done < $1
