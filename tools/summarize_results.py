#!/usr/bin/env python3
"""usage: tools/summarize_results.py [RESULTS files...]  - per seeded change: reported (by which properties, concrete or
not) or MISSED; prints the misses and a tally"""
import re, sys
files = sys.argv[1:] or ['/verif/seeded/RESULTS.txt']
seeds = {}
cur = None
for f in files:
    for line in open(f):
        if line.startswith('#### seeded/'):
            cur = line.split()[1]
            seeds.setdefault(cur, [])
        elif '=>' in line and cur:
            p = line.split('=>')[0].strip()
            if 'VIOLATION property=' in line:
                seeds[cur].append((p, 'no-failing-input-found' not in line))
            elif ': ok' in line:
                seeds[cur].append((p, None))
            else:
                seeds[cur].append((p, 'broken'))
missed = [s for s, r in seeds.items() if not any(x[1] in (True, False) for x in r)]
only_nf = [s for s, r in seeds.items() if any(x[1] is False for x in r) and not any(x[1] is True for x in r)]
broken = [s for s, r in seeds.items() if any(x[1] == 'broken' for x in r)]
print('%d seeded changes, %d reported, %d missed; %d reported only with no-failing-input-found; %d with a check that printed neither' % (
    len(seeds), len(seeds) - len(missed), len(missed), len(only_nf), len(broken)))
for s in missed:
    print('MISSED', s, seeds[s])
for s in broken:
    print('BROKEN', s, seeds[s])
print('only no-failing-input-found:', ' '.join(x.replace('seeded/', '') for x in only_nf))
