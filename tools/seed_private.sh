#!/bin/bash
# usage: tools/seed_private.sh <name> <patch.diff> <property ids...>
# applies the patch to a private copy of /repo (mount namespace, see in_private.sh) and runs the quick checks there;
# the real /repo is never touched. Prints one line per property. Remove /tmp/dpv_private/<name> afterwards.
name=$1; patch=$(realpath $2); shift 2
exec $(dirname $0)/in_private.sh $name "git -C /repo apply $patch || exit 2; for p in $*; do out=\$(./check \$p --tier quick 2>&1 | grep -E 'VIOLATION|KNOWN-FINDING|: ok' | tr '\n' ' '); echo \"\$p => \$out\"; done"
