//! H2 (unmanaged): task-level correspondence harness on a paused tokio clock.
//!
//! The pool is built by `Pool::from_config` with `runtime: Some(Runtime::Tokio1)`; every
//! asynchronous operation is a spawned task of a current-thread runtime whose clock is paused,
//! synchronous operations run inline. After every label the runtime is run until nothing can
//! make progress any more ("settle"), then an observation in the format of H1 (unmanaged) is
//! recorded. `Fire t` advances the virtual clock exactly to the deadline of the timed call of
//! task t (every task has its own power-of-two duration; only a strictly earliest deadline is
//! ever fired).
//!
//! usage: h2_unmanaged gen <seed> <ntraces> <maxlabels> | replay <file>
#![allow(dead_code)]
#[path = "../../../harness/src/rng.rs"]
mod rng;

use std::collections::BTreeMap;
use std::fmt::Write as _;
use std::sync::{Arc, Mutex};
use std::time::Duration;

use deadpool::unmanaged::{Object, Pool, PoolConfig, PoolError};
use deadpool::Runtime;
use rng::Rng;

const EV_DESTROY: i64 = 5;
const EV_HANDOUT: i64 = 6;
const EV_CLOSE_RETURNED: i64 = 7;
const EV_HANDBACK: i64 = 8;
const EV_REMOVED: i64 = 9;
const EV_STATUS: i64 = 10;
const EV_ANOMALY: i64 = 12;

const L_START: i64 = 0;
const L_CANCEL: i64 = 3;
const L_FIRE: i64 = 5;
/// the virtual clock moves half way towards the next deadline; nothing fires
const L_TICK: i64 = 6;
const OP_GET: i64 = 0; // a = mode (0 get, 1 try_get, 2 timeout_get(None), 3 (Some 0), 4 (Some finite)), b = remove variant
const OP_ADD: i64 = 1; // a = oid, b = 1 add / 0 try_add
const OP_DROP: i64 = 2;
const OP_TAKE: i64 = 3;
const OP_CLOSE: i64 = 4;
const OP_STATUS: i64 = 5;

const RES_OK: i64 = 0;
const RES_TIMEOUT: i64 = 1;
const RES_CLOSED: i64 = 2;
const RES_NORUNTIME: i64 = 3;
const RES_PANICKED: i64 = 8;
const RES_CANCELLED: i64 = 9;
const RES_UNIT: i64 = 10;

tokio::task_local! { static TID: usize; }
fn tid() -> i64 {
    TID.try_with(|t| *t as i64).unwrap_or(-1)
}

#[derive(Default)]
struct Shared {
    events: Vec<[i64; 5]>,
    results: BTreeMap<usize, i64>,
}
struct Log {
    sh: Mutex<Shared>,
}
impl Log {
    fn ev(&self, e: [i64; 5]) {
        self.sh.lock().unwrap().events.push(e);
    }
}

struct Obj {
    id: usize,
    log: Arc<Log>,
}
impl Drop for Obj {
    fn drop(&mut self) {
        self.log.ev([EV_DESTROY, self.id as i64, tid(), 0, 0]);
    }
}

#[derive(Clone, Debug)]
struct Cfg {
    max: usize,
    ptmo: i64, // pool-level timeout: 0 none, 1 zero, 2 finite
}
impl Cfg {
    fn to_ints(&self) -> Vec<i64> {
        vec![1, self.max as i64, self.ptmo, 1]
    }
    fn from_ints(v: &[i64]) -> Cfg {
        Cfg { max: v[1] as usize, ptmo: v[2] }
    }
}

/// the pool-level finite timeout; every per-call finite timeout is shorter and its own power of two
const POOL_DUR_MS: u64 = 1 << 40;
fn task_dur(t: usize) -> Duration {
    // task 0: 300 us (a finite timeout below one millisecond is still not zero), then doubling
    Duration::from_micros(300u64 << (t as u32 % 36))
}
fn err_code(e: PoolError) -> i64 {
    match e {
        PoolError::Timeout => RES_TIMEOUT,
        PoolError::Closed => RES_CLOSED,
        PoolError::NoRuntimeSpecified => RES_NORUNTIME,
    }
}

enum Got {
    O(Object<Obj>),
    T(Obj),
}

struct World {
    cfg: Cfg,
    log: Arc<Log>,
    pool: Pool<Obj>,
    held: BTreeMap<usize, Object<Obj>>,
    loose: BTreeMap<usize, Obj>,
    got: Arc<Mutex<Vec<Got>>>,
    back: Arc<Mutex<Vec<Obj>>>,
    handles: Vec<Option<tokio::task::JoinHandle<()>>>,
    ops: Vec<(i64, i64, i64)>,
    next_oid: usize,
    ev_seen: usize,
    start: tokio::time::Instant,
    deadline: BTreeMap<usize, Duration>,
}

impl World {
    fn new(cfg: Cfg) -> World {
        let log = Arc::new(Log { sh: Mutex::new(Shared::default()) });
        let timeout = match cfg.ptmo {
            0 => None,
            1 => Some(Duration::ZERO),
            _ => Some(Duration::from_millis(POOL_DUR_MS)),
        };
        let pool = Pool::from_config(&PoolConfig { max_size: cfg.max, timeout, runtime: Some(Runtime::Tokio1) });
        World {
            cfg,
            log,
            pool,
            held: BTreeMap::new(),
            loose: BTreeMap::new(),
            got: Arc::new(Mutex::new(vec![])),
            back: Arc::new(Mutex::new(vec![])),
            handles: vec![],
            ops: vec![],
            next_oid: 0,
            ev_seen: 0,
            start: tokio::time::Instant::now(),
            deadline: BTreeMap::new(),
        }
    }
    fn now(&self) -> Duration {
        tokio::time::Instant::now() - self.start
    }
    fn collect(&mut self) {
        let got: Vec<Got> = self.got.lock().unwrap().drain(..).collect();
        for g in got {
            match g {
                Got::O(o) => {
                    let id = o.id;
                    if self.held.insert(id, o).is_some() {
                        self.log.ev([EV_ANOMALY, id as i64, 1, 0, 0]);
                    }
                }
                Got::T(o) => {
                    let id = o.id;
                    if self.loose.insert(id, o).is_some() {
                        self.log.ev([EV_ANOMALY, id as i64, 2, 0, 0]);
                    }
                }
            }
        }
        let back: Vec<Obj> = self.back.lock().unwrap().drain(..).collect();
        for o in back {
            let _ = self.loose.insert(o.id, o);
        }
    }
    async fn settle(&mut self) {
        for _ in 0..64 {
            tokio::task::yield_now().await;
        }
        for t in 0..self.handles.len() {
            let fin = self.handles[t].as_ref().map(|h| h.is_finished()).unwrap_or(false);
            if fin {
                let h = self.handles[t].take().unwrap();
                if let Err(e) = h.await {
                    let code = if e.is_cancelled() { RES_CANCELLED } else { RES_PANICKED };
                    let _ = self.log.sh.lock().unwrap().results.entry(t).or_insert(code);
                }
            }
        }
        self.collect();
        let done: Vec<usize> = self.log.sh.lock().unwrap().results.keys().cloned().collect();
        for t in done {
            let _ = self.deadline.remove(&t);
        }
    }
    fn task_code(&self, t: usize, sh: &Shared) -> i64 {
        if let Some(r) = sh.results.get(&t) {
            return 100 + r;
        }
        if self.ops[t].0 == OP_ADD {
            13
        } else {
            3
        }
    }
    fn observe(&mut self) -> Vec<i64> {
        let s = self.pool.verif_snapshot();
        let mut o = vec![
            s.permits as i64,
            s.closed as i64,
            s.size_permits as i64,
            s.size_closed as i64,
            s.size as i64,
            s.available as i64,
            s.max_size as i64,
        ];
        let mut q = vec![];
        self.pool.verif_visit_queue(|ob| q.push(ob.id as i64));
        q.reverse();
        o.push(q.len() as i64);
        o.extend(q);
        o.push(self.held.len() as i64);
        o.extend(self.held.keys().map(|k| *k as i64));
        o.push(self.loose.len() as i64);
        o.extend(self.loose.keys().map(|k| *k as i64));
        let sh = self.log.sh.lock().unwrap();
        o.push(self.ops.len() as i64);
        for t in 0..self.ops.len() {
            o.push(self.task_code(t, &sh));
        }
        o.push((sh.events.len() - self.ev_seen) as i64);
        for e in &sh.events[self.ev_seen..] {
            o.extend(e);
        }
        self.ev_seen = sh.events.len();
        o
    }
    /// the strictly earliest active deadline and its task
    fn next_deadline(&self) -> Option<(usize, Duration)> {
        // tokio's timers have a resolution of one millisecond: a deadline fires at the next full
        // millisecond, so that is what the clock is advanced to and what has to be strictly earliest
        let ceil_ms = |d: &Duration| Duration::from_millis((d.as_micros() as u64 + 999) / 1000);
        let mut v: Vec<(Duration, usize)> = self.deadline.iter().map(|(t, d)| (ceil_ms(d), *t)).collect();
        v.sort();
        match v.len() {
            0 => None,
            1 => Some((v[0].1, v[0].0)),
            _ => {
                if v[0].0 < v[1].0 {
                    Some((v[0].1, v[0].0))
                } else {
                    None
                }
            }
        }
    }
    fn parked(&self, t: usize) -> bool {
        t < self.ops.len() && !self.log.sh.lock().unwrap().results.contains_key(&t)
    }
    fn enabled(&self, l: &[i64]) -> bool {
        match l[0] {
            L_START => {
                l[1] as usize == self.ops.len()
                    && match l[2] {
                        OP_GET => (0..=4).contains(&l[3]) && (0..=1).contains(&l[4]),
                        OP_ADD => l[3] >= 0 && (l[3] as usize == self.next_oid || self.loose.contains_key(&(l[3] as usize))),
                        OP_DROP | OP_TAKE => l[3] >= 0 && self.held.contains_key(&(l[3] as usize)),
                        OP_CLOSE | OP_STATUS => true,
                        _ => false,
                    }
            }
            L_CANCEL => l[1] >= 0 && self.parked(l[1] as usize),
            L_FIRE => self.next_deadline().map(|(t, _)| t as i64 == l[1]).unwrap_or(false),
            L_TICK => {
                let now = self.now();
                self.next_deadline().map(|(_, d)| d > now + Duration::from_millis(3)).unwrap_or(false)
            }
            _ => false,
        }
    }
    async fn apply(&mut self, l: &[i64]) {
        match l[0] {
            L_START => {
                let t = self.ops.len();
                let (op, a, b) = (l[2], l[3], l[4]);
                self.ops.push((op, a, b));
                let log = self.log.clone();
                let done = move |log: &Log, r: i64| {
                    let _ = log.sh.lock().unwrap().results.insert(t, r);
                };
                match op {
                    OP_GET => {
                        let rm = b != 0;
                        if a == 1 {
                            let r = TID.sync_scope(t, || if rm { self.pool.try_remove().map(Got::T) } else { self.pool.try_get().map(Got::O) });
                            let code = self.finish_get(t, r);
                            done(&log, code);
                            self.handles.push(None);
                        } else {
                            let d = match a {
                                0 => match self.cfg.ptmo {
                                    0 => None,
                                    1 => Some(Duration::ZERO),
                                    _ => Some(Duration::from_millis(POOL_DUR_MS)),
                                },
                                2 => None,
                                3 => Some(Duration::ZERO),
                                _ => Some(task_dur(t)),
                            };
                            if let Some(d) = d {
                                if !d.is_zero() {
                                    let _ = self.deadline.insert(t, self.now() + d);
                                }
                            }
                            let pool = self.pool.clone();
                            let got = self.got.clone();
                            let h = tokio::spawn(TID.scope(t, async move {
                                let r = match (a, rm) {
                                    (0, false) => pool.get().await.map(Got::O),
                                    (0, true) => pool.remove().await.map(Got::T),
                                    (_, false) => pool.timeout_get(d).await.map(Got::O),
                                    (_, true) => pool.timeout_remove(d).await.map(Got::T),
                                };
                                let code = match r {
                                    Ok(Got::O(obj)) => {
                                        log.ev([EV_HANDOUT, obj.id as i64, t as i64, 0, 0]);
                                        got.lock().unwrap().push(Got::O(obj));
                                        RES_OK
                                    }
                                    Ok(Got::T(ob)) => {
                                        log.ev([EV_REMOVED, ob.id as i64, t as i64, 0, 0]);
                                        got.lock().unwrap().push(Got::T(ob));
                                        RES_OK
                                    }
                                    Err(e) => err_code(e),
                                };
                                let _ = log.sh.lock().unwrap().results.insert(t, code);
                            }));
                            self.handles.push(Some(h));
                        }
                    }
                    OP_ADD => {
                        let ob = match self.loose.remove(&(a as usize)) {
                            Some(o) => o,
                            None => {
                                let o = Obj { id: self.next_oid, log: log.clone() };
                                self.next_oid += 1;
                                o
                            }
                        };
                        let id = ob.id;
                        if b == 0 {
                            let r = TID.sync_scope(t, || self.pool.try_add(ob));
                            let code = match r {
                                Ok(()) => RES_OK,
                                Err((ob, e)) => {
                                    let c = err_code(e);
                                    log.ev([EV_HANDBACK, ob.id as i64, t as i64, c, 0]);
                                    let _ = self.loose.insert(ob.id, ob);
                                    c
                                }
                            };
                            done(&log, code);
                            self.handles.push(None);
                        } else {
                            let pool = self.pool.clone();
                            let back = self.back.clone();
                            let h = tokio::spawn(TID.scope(t, async move {
                                let code = match pool.add(ob).await {
                                    Ok(()) => RES_OK,
                                    Err((ob, e)) => {
                                        if ob.id != id {
                                            log.ev([EV_ANOMALY, id as i64, 3, ob.id as i64, 0]);
                                        }
                                        let c = err_code(e);
                                        log.ev([EV_HANDBACK, ob.id as i64, t as i64, c, 0]);
                                        back.lock().unwrap().push(ob);
                                        c
                                    }
                                };
                                let _ = log.sh.lock().unwrap().results.insert(t, code);
                            }));
                            self.handles.push(Some(h));
                        }
                    }
                    OP_DROP => {
                        let obj = self.held.remove(&(a as usize)).unwrap();
                        TID.sync_scope(t, || drop(obj));
                        done(&log, RES_UNIT);
                        self.handles.push(None);
                    }
                    OP_TAKE => {
                        let obj = self.held.remove(&(a as usize)).unwrap();
                        let ob = TID.sync_scope(t, || Object::take(obj));
                        log.ev([EV_REMOVED, ob.id as i64, t as i64, 0, 0]);
                        let _ = self.loose.insert(ob.id, ob);
                        done(&log, RES_UNIT);
                        self.handles.push(None);
                    }
                    OP_CLOSE => {
                        TID.sync_scope(t, || self.pool.close());
                        log.ev([EV_CLOSE_RETURNED, t as i64, 0, 0, 0]);
                        done(&log, RES_UNIT);
                        self.handles.push(None);
                    }
                    _ => {
                        let s = self.pool.status();
                        log.ev([EV_STATUS, s.max_size as i64, s.size as i64, s.available as i64, s.waiting as i64]);
                        done(&log, RES_UNIT);
                        self.handles.push(None);
                    }
                }
            }
            L_CANCEL => {
                if let Some(h) = &self.handles[l[1] as usize] {
                    h.abort();
                }
            }
            L_TICK => {
                if let Some((_, d)) = self.next_deadline() {
                    let now = self.now();
                    if d > now + Duration::from_millis(3) {
                        // whole milliseconds, so that the rounded deadlines stay what they are
                        let half = Duration::from_millis(((d - now).as_millis() as u64) / 2);
                        tokio::time::advance(half).await;
                    }
                }
            }
            L_FIRE => {
                if let Some((t, d)) = self.next_deadline() {
                    let _ = self.deadline.remove(&t);
                    let now = self.now();
                    if d > now {
                        tokio::time::advance(d - now).await;
                    }
                }
            }
            _ => {}
        }
        self.settle().await;
    }
    fn finish_get(&mut self, t: usize, r: Result<Got, PoolError>) -> i64 {
        match r {
            Ok(Got::O(obj)) => {
                self.log.ev([EV_HANDOUT, obj.id as i64, t as i64, 0, 0]);
                let _ = self.held.insert(obj.id, obj);
                RES_OK
            }
            Ok(Got::T(ob)) => {
                self.log.ev([EV_REMOVED, ob.id as i64, t as i64, 0, 0]);
                let _ = self.loose.insert(ob.id, ob);
                RES_OK
            }
            Err(e) => err_code(e),
        }
    }
}

struct TraceOut {
    cfg: Cfg,
    labels: Vec<Vec<i64>>,
    obs: Vec<Vec<i64>>,
    err: Option<String>,
}

async fn run_label(w: &mut World, out: &mut TraceOut, l: Vec<i64>) -> bool {
    if !w.enabled(&l) {
        out.err = Some(format!("label {:?} not enabled on the implementation at step {}", l, out.labels.len()));
        return false;
    }
    w.apply(&l).await;
    out.labels.push(l);
    out.obs.push(w.observe());
    true
}

fn choose(r: &mut Rng, w: &World, cap: usize) -> Option<Vec<i64>> {
    let mut cands: Vec<(u64, Vec<i64>)> = vec![];
    for t in 0..w.ops.len() {
        if w.parked(t) {
            cands.push((2, vec![L_CANCEL, t as i64, 0, 0, 0]));
        }
    }
    if let Some((t, d)) = w.next_deadline() {
        cands.push((9, vec![L_FIRE, t as i64, 0, 0, 0]));
        if d > w.now() + Duration::from_millis(3) {
            cands.push((3, vec![L_TICK, 0, 0, 0, 0]));
        }
    }
    let n = w.ops.len();
    if n < cap {
        let nt = n as i64;
        // at most one call through the pool's own (shared) duration at a time
        let pool_timed_active = (0..n).any(|t| w.ops[t].0 == OP_GET && w.ops[t].1 == 0 && w.parked(t)) && w.cfg.ptmo == 2;
        let mode = loop {
            let m = [0i64, 0, 1, 2, 3, 4, 4, 4, 4][r.below(9) as usize];
            if !(m == 0 && pool_timed_active) {
                break m;
            }
        };
        let rm = r.chance(20) as i64;
        cands.push((12, vec![L_START, nt, OP_GET, mode, rm]));
        let oid = if !w.loose.is_empty() && r.chance(50) {
            let ks: Vec<usize> = w.loose.keys().cloned().collect();
            ks[r.below(ks.len() as u64) as usize] as i64
        } else {
            w.next_oid as i64
        };
        cands.push((8, vec![L_START, nt, OP_ADD, oid, r.chance(70) as i64]));
        let held: Vec<usize> = w.held.keys().cloned().collect();
        if !held.is_empty() {
            let o = held[r.below(held.len() as u64) as usize] as i64;
            cands.push((6 + 3 * held.len() as u64, vec![L_START, nt, OP_DROP, o, 0]));
            cands.push((3, vec![L_START, nt, OP_TAKE, o, 0]));
        }
        cands.push((1, vec![L_START, nt, OP_CLOSE, 0, 0]));
        cands.push((2, vec![L_START, nt, OP_STATUS, 0, 0]));
    }
    if cands.is_empty() {
        return None;
    }
    let ws: Vec<u64> = cands.iter().map(|c| c.0).collect();
    let i = r.weighted(&ws);
    Some(cands.swap_remove(i).1)
}

async fn gen_trace(r: &mut Rng, max_labels: usize) -> TraceOut {
    let cfg = Cfg {
        max: [0usize, 1, 1, 1, 2, 2, 3][r.below(7) as usize],
        ptmo: [0i64, 0, 1, 2, 2][r.below(5) as usize],
    };
    let mut w = World::new(cfg.clone());
    let mut out = TraceOut { cfg, labels: vec![], obs: vec![], err: None };
    let n = 6 + r.below(max_labels as u64 - 5) as usize;
    for _ in 0..n {
        match choose(r, &w, 16) {
            Some(l) => {
                if !run_label(&mut w, &mut out, l).await {
                    break;
                }
            }
            None => break,
        }
    }
    // drain: let every deadline pass, cancel what is left
    loop {
        let next = if let Some((t, _)) = w.next_deadline() {
            Some(vec![L_FIRE, t as i64, 0, 0, 0])
        } else {
            (0..w.ops.len()).find(|t| w.parked(*t)).map(|t| vec![L_CANCEL, t as i64, 0, 0, 0])
        };
        match next {
            Some(l) => {
                if !run_label(&mut w, &mut out, l).await {
                    break;
                }
            }
            None => break,
        }
    }
    w.held.clear();
    w.loose.clear();
    out
}

async fn replay_trace(cfg: Cfg, labels: &[Vec<i64>]) -> TraceOut {
    let mut w = World::new(cfg.clone());
    let mut out = TraceOut { cfg, labels: vec![], obs: vec![], err: None };
    for l in labels {
        let mut l = l.clone();
        l.resize(5, 0);
        if !run_label(&mut w, &mut out, l).await {
            break;
        }
    }
    for h in w.handles.iter().flatten() {
        h.abort();
    }
    w.settle().await;
    w.held.clear();
    w.loose.clear();
    out
}

fn ints(v: &[i64]) -> String {
    let mut s = String::from("[");
    for (i, x) in v.iter().enumerate() {
        if i > 0 {
            s.push(',');
        }
        let _ = write!(s, "{}", x);
    }
    s.push(']');
    s
}
fn print_trace(id: usize, t: &TraceOut) {
    let mut s = String::new();
    let _ = write!(s, "{{\"id\":{},\"h2\":1,\"cfg\":{},\"labels\":[", id, ints(&t.cfg.to_ints()));
    for (i, l) in t.labels.iter().enumerate() {
        if i > 0 {
            s.push(',');
        }
        s.push_str(&ints(l));
    }
    s.push_str("],\"obs\":[");
    for (i, l) in t.obs.iter().enumerate() {
        if i > 0 {
            s.push(',');
        }
        s.push_str(&ints(l));
    }
    s.push(']');
    if let Some(e) = &t.err {
        let _ = write!(s, ",\"err\":\"{}\"", e.replace('"', "'"));
    }
    s.push('}');
    println!("{}", s);
}

fn parse_replay_line(line: &str) -> Option<(Cfg, Vec<Vec<i64>>)> {
    fn parse_arr(s: &str) -> (Vec<i64>, usize) {
        let end = s.find(']').unwrap();
        let v = s[1..end].split(',').filter(|x| !x.trim().is_empty()).map(|x| x.trim().parse::<i64>().unwrap()).collect();
        (v, end + 1)
    }
    let ci = line.find("\"cfg\"")?;
    let cs = &line[ci..];
    let (cfg, _) = parse_arr(&cs[cs.find('[')?..]);
    let li = line.find("\"labels\"")?;
    let ls = &line[li..];
    let mut rest = &ls[ls.find('[')? + 1..];
    let mut labels = vec![];
    loop {
        let r = rest.trim_start_matches([',', ' ']);
        if r.starts_with('[') {
            let (v, n) = parse_arr(r);
            labels.push(v);
            rest = &r[n..];
        } else {
            break;
        }
    }
    Some((Cfg::from_ints(&cfg), labels))
}

fn rt() -> tokio::runtime::Runtime {
    tokio::runtime::Builder::new_current_thread().enable_time().start_paused(true).build().unwrap()
}

fn main() {
    let args: Vec<String> = std::env::args().collect();
    match args.get(1).map(|s| s.as_str()) {
        Some("gen") => {
            let seed: u64 = args[2].parse().unwrap();
            let n: usize = args[3].parse().unwrap();
            let ml: usize = args[4].parse().unwrap();
            let mut master = Rng::new(seed);
            for i in 0..n {
                let mut r = master.fork();
                let t = rt().block_on(gen_trace(&mut r, ml));
                print_trace(i, &t);
            }
        }
        Some("replay") => {
            let text = std::fs::read_to_string(&args[2]).unwrap();
            for (i, line) in text.lines().enumerate() {
                if let Some((cfg, labels)) = parse_replay_line(line) {
                    let t = rt().block_on(replay_trace(cfg, &labels));
                    print_trace(i, &t);
                }
            }
        }
        _ => {
            eprintln!("usage: h2_unmanaged gen <seed> <n> <maxlabels> | replay <file>");
            std::process::exit(2);
        }
    }
}
