//! H1 (unmanaged): thread-level correspondence harness for `deadpool::unmanaged::Pool`.
//!
//! Generates (or replays) label sequences, executes each label on the real pool under the
//! baton scheduler and records an observation after every label. One JSON line per trace.
//!
//! usage: h1_unmanaged gen <seed> <ntraces> <profile> <maxlabels>
//!        h1_unmanaged replay <file>        (lines: {"cfg":[..],"labels":[[..],..]})
#![allow(dead_code)]
#[path = "../../harness/src/rng.rs"]
mod rng;
#[path = "../../harness/src/sched.rs"]
mod sched;

use std::collections::BTreeMap;
use std::fmt::Write as _;
use std::sync::{Arc, Mutex};
use std::time::Duration;

use deadpool::unmanaged::{Object, Pool, PoolConfig, PoolError};
use rng::Rng;
use sched::*;

// ---------------------------------------------------------------- events
const EV_DESTROY: i64 = 5;
const EV_HANDOUT: i64 = 6;
const EV_CLOSE_RETURNED: i64 = 7;
const EV_HANDBACK: i64 = 8;
const EV_REMOVED: i64 = 9;
const EV_STATUS: i64 = 10;
const EV_ANOMALY: i64 = 12;

struct Log {
    events: Mutex<Vec<[i64; 5]>>,
}
impl Log {
    fn ev(&self, e: [i64; 5]) {
        self.events.lock().unwrap().push(e);
    }
}

fn tid() -> i64 {
    match sched::current_task() {
        Some(t) => t as i64,
        None => -1,
    }
}

/// identity-tagged pooled value with a logged destructor
struct Obj {
    id: usize,
    log: Arc<Log>,
}
impl Drop for Obj {
    fn drop(&mut self) {
        self.log.ev([EV_DESTROY, self.id as i64, tid(), 0, 0]);
    }
}

// ---------------------------------------------------------------- configuration and labels
#[derive(Clone, Debug)]
struct Cfg {
    ctor: i64, // 0 Pool::new, 1 Pool::from_config, 2 Pool::from(iterator)
    max: usize,
    ptmo: i64, // pool-level timeout of from_config: 0 none, 1 zero, 2 finite (no runtime)
}
impl Cfg {
    fn to_ints(&self) -> Vec<i64> {
        vec![self.ctor, self.max as i64, self.ptmo]
    }
    fn from_ints(v: &[i64]) -> Cfg {
        Cfg {
            ctor: v[0],
            max: v[1] as usize,
            ptmo: if v[0] == 1 { v[2] } else { 0 },
        }
    }
}

const L_START: i64 = 0;
const L_STEP: i64 = 1;
const L_CANCEL: i64 = 3;
const L_MARK: i64 = 4;
// op kinds of Start: label = [0, t, op, a, b]
const OP_GET: i64 = 0; // a = mode (0 get, 1 try_get, 2 timeout_get(None), 3 (Some 0), 4 (Some 700us)), b = remove variant
const OP_ADD: i64 = 1; // a = oid (fresh or one the caller got back), b = 1 add / 0 try_add
const OP_DROP: i64 = 2; // a = oid
const OP_TAKE: i64 = 3; // a = oid
const OP_CLOSE: i64 = 4;
const OP_STATUS: i64 = 5;

const RES_OK: i64 = 0;
const RES_TIMEOUT: i64 = 1;
const RES_CLOSED: i64 = 2;
const RES_NORUNTIME: i64 = 3;
const RES_UNIT: i64 = 10;

fn dur(code: i64) -> Option<Duration> {
    match code {
        0 => None,
        1 => Some(Duration::ZERO),
        // a finite timeout below one millisecond: still not zero
        _ => Some(Duration::from_micros(700)),
    }
}

fn err_code(e: PoolError) -> i64 {
    match e {
        PoolError::Timeout => RES_TIMEOUT,
        PoolError::Closed => RES_CLOSED,
        PoolError::NoRuntimeSpecified => RES_NORUNTIME,
    }
}

fn point_code(p: &str) -> i64 {
    match p {
        "uget.acquire" => 2,
        "uget.pop" => 5,
        "uget.popped" => 6,
        "uget.undo" => 7,
        "uadd.push" => 15,
        "uadd.avail_inc" => 16,
        "uadd.add_permits" => 17,
        "utake.size_dec" => 20,
        "utake.add_permits" => 21,
        "udrop.avail_inc" => 30,
        "udrop.add_permits" => 31,
        "udrop.clean_up" => 32,
        "uclean.clear" => 33,
        "uclose.size_semaphore" => 40,
        "uclose.clear" => 41,
        "ustatus.available" => 50,
        // implicit schedule points: an operation on the lock / a semaphore away from its explicit point
        "!mutex.lock" => 90,
        "!sem.acquire" => 91,
        "!sem.try_acquire" => 92,
        "!sem.add_permits" => 93,
        "!sem.close" => 94,
        "!sem.is_closed" => 95,
        "!sem.available_permits" => 96,
        "!atomic.load" => 97,
        "!atomic.update" => 98,
        _ => 99,
    }
}

enum Got {
    O(Object<Obj>),
    T(Obj),
}

// ---------------------------------------------------------------- one trace on the real pool
struct World {
    log: Arc<Log>,
    sched: Sched,
    pool: Pool<Obj>,
    held: Arc<Mutex<BTreeMap<usize, Object<Obj>>>>,
    loose: Arc<Mutex<BTreeMap<usize, Obj>>>,
    next_oid: usize,
    ev_seen: usize,
    ops: Vec<i64>,
}

impl World {
    fn new(cfg: &Cfg) -> World {
        let log = Arc::new(Log {
            events: Mutex::new(vec![]),
        });
        let mut next_oid = 0;
        let pool = match cfg.ctor {
            0 => Pool::new(cfg.max),
            1 => Pool::from_config(&PoolConfig {
                max_size: cfg.max,
                timeout: dur(cfg.ptmo),
                runtime: None,
            }),
            _ => {
                next_oid = cfg.max;
                // an iterator whose ExactSizeIterator::len() does not tell the truth (safe code can
                // write one): the pool must size itself by the items it actually received
                struct Lying<I> {
                    inner: I,
                    claim: usize,
                }
                impl<I: Iterator> Iterator for Lying<I> {
                    type Item = I::Item;
                    fn next(&mut self) -> Option<I::Item> {
                        self.inner.next()
                    }
                    fn size_hint(&self) -> (usize, Option<usize>) {
                        (self.claim, Some(self.claim))
                    }
                }
                impl<I: Iterator> ExactSizeIterator for Lying<I> {
                    fn len(&self) -> usize {
                        self.claim
                    }
                }
                let claim = match cfg.max % 3 {
                    0 => cfg.max,
                    1 => cfg.max + 1,
                    _ => cfg.max - 1,
                };
                let log2 = log.clone();
                Pool::from(Lying {
                    inner: (0..cfg.max).map(move |id| Obj {
                        id,
                        log: log2.clone(),
                    }),
                    claim,
                })
            }
        };
        World {
            log,
            sched: Sched::new(),
            pool,
            held: Arc::new(Mutex::new(BTreeMap::new())),
            loose: Arc::new(Mutex::new(BTreeMap::new())),
            next_oid,
            ev_seen: 0,
            ops: vec![],
        }
    }

    fn task_code(&self, t: usize, y: &Yield) -> i64 {
        match y {
            Yield::Start => 1,
            Yield::Point(p) => point_code(p),
            Yield::Gate { .. } => 98,
            Yield::Sem => {
                (if self.ops[t] == OP_ADD { 13 } else { 3 }) + self.sched.woken(t) as i64
            }
            Yield::Done(c) => 100 + c,
        }
    }

    fn observe(&mut self) -> Vec<i64> {
        let s = self.pool.verif_snapshot();
        let mut o = vec![
            s.permits as i64,
            s.closed as i64,
            s.size_permits as i64,
            s.size_closed as i64,
            s.size as i64,
            s.available as i64,
            s.max_size as i64,
        ];
        let mut q = vec![];
        self.pool.verif_visit_queue(|ob| q.push(ob.id as i64));
        q.reverse(); // next object to be popped first
        o.push(q.len() as i64);
        o.extend(q);
        let held: Vec<i64> = self.held.lock().unwrap().keys().map(|k| *k as i64).collect();
        o.push(held.len() as i64);
        o.extend(held);
        let loose: Vec<i64> = self.loose.lock().unwrap().keys().map(|k| *k as i64).collect();
        o.push(loose.len() as i64);
        o.extend(loose);
        let st = self.sched.states();
        o.push(st.len() as i64);
        for (t, y) in st.iter().enumerate() {
            o.push(self.task_code(t, y));
        }
        let evs = self.log.events.lock().unwrap();
        o.push((evs.len() - self.ev_seen) as i64);
        for e in &evs[self.ev_seen..] {
            o.extend(e);
        }
        self.ev_seen = evs.len();
        o
    }

    fn enabled(&self, l: &[i64]) -> bool {
        match l[0] {
            L_START => {
                if l[1] as usize != self.sched.ntasks() {
                    return false;
                }
                match l[2] {
                    OP_GET => (0..=4).contains(&l[3]) && (0..=1).contains(&l[4]),
                    OP_ADD => {
                        l[3] >= 0
                            && (l[3] as usize == self.next_oid
                                || self.loose.lock().unwrap().contains_key(&(l[3] as usize)))
                    }
                    OP_DROP | OP_TAKE => {
                        l[3] >= 0 && self.held.lock().unwrap().contains_key(&(l[3] as usize))
                    }
                    OP_CLOSE | OP_STATUS => true,
                    _ => false,
                }
            }
            L_MARK => true,
            L_STEP | L_CANCEL => {
                let t = l[1] as usize;
                if l[1] < 0 || t >= self.sched.ntasks() {
                    return false;
                }
                matches!(
                    (l[0], self.sched.state(t)),
                    (L_STEP, Yield::Start)
                        | (L_STEP, Yield::Point(_))
                        | (L_STEP, Yield::Sem)
                        | (L_CANCEL, Yield::Sem)
                )
            }
            _ => false,
        }
    }

    fn start(&mut self, op: i64, a: i64, b: i64) {
        let pool = self.pool.clone();
        let held = self.held.clone();
        let loose = self.loose.clone();
        let log = self.log.clone();
        self.ops.push(op);
        // the value leaves the caller's hands when the operation is issued
        let mut in_hand: Option<Object<Obj>> = match op {
            OP_DROP | OP_TAKE => self.held.lock().unwrap().remove(&(a as usize)),
            _ => None,
        };
        let mut to_add: Option<Obj> = None;
        if op == OP_ADD {
            to_add = self.loose.lock().unwrap().remove(&(a as usize));
            if to_add.is_none() {
                to_add = Some(Obj {
                    id: self.next_oid,
                    log: log.clone(),
                });
                self.next_oid += 1;
            }
        }
        let _ = self.sched.spawn(move |ctx| {
            let p = pool;
            let me = ctx.id as i64;
            match op {
                OP_GET => {
                    let rm = b != 0;
                    let r: Result<Got, PoolError> = if a == 1 {
                        if rm {
                            p.try_remove().map(Got::T)
                        } else {
                            p.try_get().map(Got::O)
                        }
                    } else {
                        let fut = async {
                            match (a, rm) {
                                (0, false) => p.get().await.map(Got::O),
                                (0, true) => p.remove().await.map(Got::T),
                                (_, false) => p.timeout_get(dur(a - 2)).await.map(Got::O),
                                (_, true) => p.timeout_remove(dur(a - 2)).await.map(Got::T),
                            }
                        };
                        match drive(ctx, fut) {
                            PollEnd::Ready(r) => r,
                            PollEnd::Panicked => return RES_PANICKED,
                            PollEnd::Cancelled => return RES_CANCELLED,
                        }
                    };
                    match r {
                        Ok(Got::O(obj)) => {
                            log.ev([EV_HANDOUT, obj.id as i64, me, 0, 0]);
                            let id = obj.id;
                            if held.lock().unwrap().insert(id, obj).is_some() {
                                log.ev([EV_ANOMALY, id as i64, 1, 0, 0]);
                            }
                            RES_OK
                        }
                        Ok(Got::T(ob)) => {
                            log.ev([EV_REMOVED, ob.id as i64, me, 0, 0]);
                            let id = ob.id;
                            if loose.lock().unwrap().insert(id, ob).is_some() {
                                log.ev([EV_ANOMALY, id as i64, 2, 0, 0]);
                            }
                            RES_OK
                        }
                        Err(e) => err_code(e),
                    }
                }
                OP_ADD => {
                    let ob = to_add.take().unwrap();
                    let id = ob.id;
                    let r = if b == 0 {
                        p.try_add(ob)
                    } else {
                        match drive(ctx, p.add(ob)) {
                            PollEnd::Ready(r) => r,
                            PollEnd::Panicked => return RES_PANICKED,
                            PollEnd::Cancelled => return RES_CANCELLED,
                        }
                    };
                    match r {
                        Ok(()) => RES_OK,
                        Err((ob, e)) => {
                            if ob.id != id {
                                log.ev([EV_ANOMALY, id as i64, 3, ob.id as i64, 0]);
                            }
                            let c = err_code(e);
                            log.ev([EV_HANDBACK, ob.id as i64, me, c, 0]);
                            let _ = loose.lock().unwrap().insert(ob.id, ob);
                            c
                        }
                    }
                }
                OP_DROP => {
                    let o = in_hand.take().unwrap();
                    if (o.id as i64 + me) % 3 == 0 {
                        // the holder panics: the object goes back while its thread unwinds
                        let _ = std::panic::catch_unwind(std::panic::AssertUnwindSafe(move || {
                            let _o = o;
                            std::panic::resume_unwind(Box::new(()))
                        }));
                    } else {
                        drop(o);
                    }
                    RES_UNIT
                }
                OP_TAKE => {
                    let ob = Object::take(in_hand.take().unwrap());
                    log.ev([EV_REMOVED, ob.id as i64, me, 0, 0]);
                    let _ = loose.lock().unwrap().insert(ob.id, ob);
                    RES_UNIT
                }
                OP_CLOSE => {
                    p.close();
                    log.ev([EV_CLOSE_RETURNED, me, 0, 0, 0]);
                    RES_UNIT
                }
                OP_STATUS => {
                    let s = p.status();
                    log.ev([
                        EV_STATUS,
                        s.max_size as i64,
                        s.size as i64,
                        s.available as i64,
                        s.waiting as i64,
                    ]);
                    RES_UNIT
                }
                _ => unreachable!(),
            }
        });
    }

    fn apply(&mut self, l: &[i64]) {
        match l[0] {
            L_START => self.start(l[2], l[3], l[4]),
            L_STEP => {
                let _ = self.sched.resume(l[1] as usize, Cmd::Run);
            }
            L_CANCEL => {
                let _ = self.sched.resume(l[1] as usize, Cmd::Cancel);
            }
            _ => {}
        }
    }

    /// next label that brings an unfinished task towards its end
    fn drain_label(&self) -> Option<Vec<i64>> {
        for (t, y) in self.sched.states().iter().enumerate() {
            let ti = t as i64;
            match y {
                Yield::Done(_) => {}
                Yield::Sem => {
                    if self.sched.woken(t) {
                        return Some(vec![L_STEP, ti, 0, 0, 0]);
                    }
                    return Some(vec![L_CANCEL, ti, 0, 0, 0]);
                }
                _ => return Some(vec![L_STEP, ti, 0, 0, 0]),
            }
        }
        None
    }
}

// ---------------------------------------------------------------- generation
#[derive(Clone, Copy, PartialEq)]
enum Profile {
    Core,  // no close
    Full,  // small pools, many adds: the pool is full most of the time; no close
    Close, // close early and often
    Mixed,
}

struct Gen {
    rng: Rng,
    profile: Profile,
    max_labels: usize,
}

impl Gen {
    fn gen_cfg(&mut self) -> Cfg {
        let r = &mut self.rng;
        let ctor = [0, 0, 1, 1, 2, 2][r.below(6) as usize];
        let max = if self.profile == Profile::Full {
            [0usize, 1, 1, 2][r.below(4) as usize]
        } else {
            [0usize, 1, 1, 2, 2, 2, 3, 4][r.below(8) as usize]
        };
        let ptmo = if ctor == 1 {
            [0, 0, 1, 2][r.below(4) as usize]
        } else {
            0
        };
        Cfg { ctor, max, ptmo }
    }

    fn choose(&mut self, w: &World, total_cap: usize) -> Option<Vec<i64>> {
        let r = &mut self.rng;
        let states = w.sched.states();
        let mut cands: Vec<(u64, Vec<i64>)> = vec![];
        let mut active = 0;
        for (t, y) in states.iter().enumerate() {
            let ti = t as i64;
            match y {
                Yield::Done(_) => {}
                Yield::Sem => {
                    let woken = w.sched.woken(t);
                    if woken {
                        active += 1;
                    }
                    cands.push((if woken { 10 } else { 1 }, vec![L_STEP, ti, 0, 0, 0]));
                    cands.push((2, vec![L_CANCEL, ti, 0, 0, 0]));
                }
                _ => {
                    active += 1;
                    cands.push((10, vec![L_STEP, ti, 0, 0, 0]));
                }
            }
        }
        let n = states.len();
        if active < 4 && n < total_cap {
            let nt = n as i64;
            let held: Vec<usize> = w.held.lock().unwrap().keys().cloned().collect();
            let loose: Vec<usize> = w.loose.lock().unwrap().keys().cloned().collect();
            let mode = match r.below(20) {
                0..=5 => 0,
                6..=10 => 1,
                11..=13 => 2,
                14..=17 => 3,
                _ => 4,
            };
            let rm = r.chance(30) as i64;
            cands.push((11, vec![L_START, nt, OP_GET, mode, rm]));
            let blocking = r.chance(50) as i64;
            let snap = w.pool.verif_snapshot();
            let addw = if self.profile == Profile::Full {
                16
            } else if snap.size < snap.max_size {
                15
            } else {
                6
            };
            if !loose.is_empty() && r.chance(50) {
                let o = loose[r.below(loose.len() as u64) as usize] as i64;
                cands.push((addw, vec![L_START, nt, OP_ADD, o, blocking]));
            } else {
                cands.push((addw, vec![L_START, nt, OP_ADD, w.next_oid as i64, blocking]));
            }
            if !held.is_empty() {
                let o = held[r.below(held.len() as u64) as usize] as i64;
                cands.push((10, vec![L_START, nt, OP_DROP, o, 0]));
                let o = held[r.below(held.len() as u64) as usize] as i64;
                cands.push((4, vec![L_START, nt, OP_TAKE, o, 0]));
            }
            cands.push((2, vec![L_START, nt, OP_STATUS, 0, 0]));
            match self.profile {
                Profile::Close => cands.push((3, vec![L_START, nt, OP_CLOSE, 0, 0])),
                Profile::Mixed => cands.push((1, vec![L_START, nt, OP_CLOSE, 0, 0])),
                _ => {}
            }
        }
        if cands.is_empty() {
            return None;
        }
        let ws: Vec<u64> = cands.iter().map(|c| c.0).collect();
        let i = r.weighted(&ws);
        Some(cands.swap_remove(i).1)
    }
}

struct TraceOut {
    cfg: Cfg,
    labels: Vec<Vec<i64>>,
    obs: Vec<Vec<i64>>,
    err: Option<String>,
}

fn run_label(w: &mut World, out: &mut TraceOut, l: Vec<i64>) -> bool {
    if !w.enabled(&l) {
        out.err = Some(format!(
            "label {:?} not enabled on the implementation at step {}",
            l,
            out.labels.len()
        ));
        return false;
    }
    w.apply(&l);
    out.labels.push(l);
    out.obs.push(w.observe());
    true
}

fn drain(w: &mut World, out: &mut TraceOut) -> bool {
    let mut guard = 0;
    while let Some(l) = w.drain_label() {
        if !run_label(w, out, l) {
            return false;
        }
        guard += 1;
        if guard > 2000 {
            out.err = Some("drain does not terminate".into());
            return false;
        }
    }
    true
}

fn run_op(w: &mut World, out: &mut TraceOut, op: i64, a: i64, b: i64) -> bool {
    let t = w.sched.ntasks() as i64;
    run_label(w, out, vec![L_START, t, op, a, b]) && drain(w, out)
}

/// drain all tasks, give everything back, then probe the pool through the public API:
/// status(), as many try_get as there are objects and one more, as many try_add as there are
/// free slots and one more
fn finish(w: &mut World, out: &mut TraceOut) {
    let _ = run_label(w, out, vec![L_MARK, 1, 0, 0, 0]);
    if !drain(w, out) {
        return;
    }
    loop {
        let o = match w.held.lock().unwrap().keys().next() {
            Some(o) => *o as i64,
            None => break,
        };
        if !run_op(w, out, OP_DROP, o, 0) {
            return;
        }
    }
    let _ = run_label(w, out, vec![L_MARK, 2, 0, 0, 0]);
    if !run_op(w, out, OP_STATUS, 0, 0) {
        return;
    }
    let s = w.pool.verif_snapshot();
    let n = if s.closed { 0 } else { s.queue_len.min(6) };
    for _ in 0..=n {
        if !run_op(w, out, OP_GET, 1, 0) {
            return;
        }
    }
    let s = w.pool.verif_snapshot();
    let free = if s.closed {
        0
    } else {
        s.max_size.saturating_sub(s.size).min(6)
    };
    for _ in 0..=free {
        let o = w.next_oid as i64;
        if !run_op(w, out, OP_ADD, o, 0) {
            return;
        }
    }
    if !run_op(w, out, OP_STATUS, 0, 0) {
        return;
    }
    let _ = run_label(w, out, vec![L_MARK, 3, 0, 0, 0]);
}

fn cleanup(w: World) {
    // every task must be finished, otherwise its thread would leak
    let mut guard = 0;
    while let Some(l) = w.drain_label() {
        let _ = w.sched.resume(
            l[1] as usize,
            if l[0] == L_STEP { Cmd::Run } else { Cmd::Cancel },
        );
        guard += 1;
        if guard > 5000 {
            break;
        }
    }
    w.held.lock().unwrap().clear();
    w.loose.lock().unwrap().clear();
}

fn gen_trace(g: &mut Gen) -> TraceOut {
    let cfg = g.gen_cfg();
    let mut w = World::new(&cfg);
    let mut out = TraceOut {
        cfg,
        labels: vec![],
        obs: vec![],
        err: None,
    };
    let cap = 6 + g.rng.below(14) as usize;
    let nlabels = 10 + g.rng.below(g.max_labels as u64 - 9) as usize;
    for _ in 0..nlabels {
        match g.choose(&w, cap) {
            Some(l) => {
                if !run_label(&mut w, &mut out, l) {
                    break;
                }
            }
            None => break,
        }
    }
    if out.err.is_none() {
        finish(&mut w, &mut out);
    }
    cleanup(w);
    out
}


// ---------------------------------------------------------------- sequential exploration
/// operations of the sequential alphabet: (op, a, b) with a = -1 meaning "pick the object"
const SEQ_OPS: [(i64, i64, i64, u8); 15] = [
    (OP_GET, 1, 0, 0),  // try_get
    (OP_GET, 0, 0, 0),  // get (may park)
    (OP_GET, 3, 0, 0),  // timeout_get(0)
    (OP_GET, 4, 0, 0),  // timeout_get(finite): NoRuntimeSpecified
    (OP_GET, 1, 1, 0),  // try_remove
    (OP_ADD, -1, 0, 0), // try_add of a fresh object
    (OP_ADD, -1, 1, 0), // add of a fresh object (may park)
    (OP_ADD, -2, 0, 0), // try_add of an object the caller got back
    (OP_DROP, -1, 0, 0),
    (OP_DROP, -3, 0, 0), // the held object with the highest id
    (OP_TAKE, -1, 0, 0),
    (OP_CLOSE, 0, 0, 0),
    (OP_STATUS, 0, 0, 0),
    (-1, 0, 0, 1), // the oldest parked get is abandoned
    (-1, 0, 0, 2), // the oldest parked add is abandoned
];

/// everything that can run by itself runs to its end; parked callers without a permit stay parked
fn seq_settle(w: &mut World, out: &mut TraceOut) -> bool {
    for _ in 0..400 {
        let mut next = None;
        let snap = w.pool.verif_snapshot();
        for (t, y) in w.sched.states().iter().enumerate() {
            match y {
                Yield::Done(_) => {}
                Yield::Sem => {
                    let closed = if w.ops[t] == OP_ADD { snap.size_closed } else { snap.closed };
                    if w.sched.woken(t) || closed {
                        next = Some(vec![L_STEP, t as i64, 0, 0, 0]);
                    }
                }
                _ => next = Some(vec![L_STEP, t as i64, 0, 0, 0]),
            }
            if next.is_some() {
                break;
            }
        }
        match next {
            Some(l) => {
                if !run_label(w, out, l) {
                    return false;
                }
            }
            None => return true,
        }
    }
    false
}

fn seq_parked(w: &World, adds: bool) -> Vec<usize> {
    w.sched
        .states()
        .iter()
        .enumerate()
        .filter(|(t, y)| matches!(y, Yield::Sem) && !w.sched.woken(*t) && (w.ops[*t] == OP_ADD) == adds)
        .map(|(t, _)| t)
        .collect()
}

fn seq_apply(w: &mut World, out: &mut TraceOut, o: (i64, i64, i64, u8)) -> bool {
    let (op, a, b, special) = o;
    let t = w.sched.ntasks() as i64;
    let held: Vec<i64> = w.held.lock().unwrap().keys().map(|k| *k as i64).collect();
    let loose: Vec<i64> = w.loose.lock().unwrap().keys().map(|k| *k as i64).collect();
    let ok = match special {
        1 | 2 => match seq_parked(w, special == 2).first() {
            Some(p) => run_label(w, out, vec![L_CANCEL, *p as i64, 0, 0, 0]),
            None => false,
        },
        _ => {
            let a = match (op, a) {
                (OP_ADD, -1) => w.next_oid as i64,
                (OP_ADD, -2) => match loose.first() {
                    Some(x) => *x,
                    None => return false,
                },
                (OP_DROP, -1) | (OP_TAKE, -1) => match held.first() {
                    Some(x) => *x,
                    None => return false,
                },
                (OP_DROP, -3) => {
                    if held.len() < 2 {
                        return false;
                    }
                    held[held.len() - 1]
                }
                (_, a) => a,
            };
            if (op == OP_GET || op == OP_ADD) && b == 1 && op == OP_ADD && seq_parked(w, true).len() >= 2 {
                return false;
            }
            if op == OP_GET && a == 0 && seq_parked(w, false).len() >= 2 {
                return false;
            }
            if op == OP_CLOSE && w.pool.verif_snapshot().closed {
                return false;
            }
            if w.sched.ntasks() > 40 {
                return false;
            }
            run_label(w, out, vec![L_START, t, op, a, b])
        }
    };
    ok && seq_settle(w, out)
}

fn seq_key(w: &World) -> Vec<i64> {
    let s = w.pool.verif_snapshot();
    vec![
        s.permits as i64,
        s.size_permits as i64,
        s.closed as i64,
        s.size_closed as i64,
        s.size as i64,
        s.available as i64,
        s.queue_len as i64,
        w.held.lock().unwrap().len() as i64,
        w.loose.lock().unwrap().len().min(2) as i64,
        seq_parked(w, false).len() as i64,
        seq_parked(w, true).len() as i64,
    ]
}

/// breadth first over sequences of whole operations, pruned by the abstract pool state; one trace per
/// (state, operation) edge, each followed by the usual drain and probe
fn explore_seq(cfg: Cfg, max_depth: usize, max_edges: usize) -> usize {
    use std::collections::{HashSet, VecDeque};
    let mut seen: HashSet<Vec<i64>> = HashSet::new();
    let mut queue: VecDeque<Vec<usize>> = VecDeque::new();
    queue.push_back(vec![]);
    let mut edges = 0usize;
    while let Some(path) = queue.pop_front() {
        for oi in 0..SEQ_OPS.len() {
            if edges >= max_edges {
                return edges;
            }
            let mut w = World::new(&cfg);
            let mut out = TraceOut { cfg: cfg.clone(), labels: vec![], obs: vec![], err: None };
            let mut ok = true;
            for p in &path {
                ok = ok && seq_apply(&mut w, &mut out, SEQ_OPS[*p]);
            }
            let applied = ok && seq_apply(&mut w, &mut out, SEQ_OPS[oi]);
            if !applied {
                if out.err.is_some() {
                    print_trace(edges, &out);
                    edges += 1;
                }
                cleanup(w);
                continue;
            }
            if seen.insert(seq_key(&w)) && path.len() + 1 < max_depth {
                let mut np = path.clone();
                np.push(oi);
                queue.push_back(np);
            }
            finish(&mut w, &mut out);
            print_trace(edges, &out);
            edges += 1;
            cleanup(w);
        }
    }
    edges
}

// ---------------------------------------------------------------- close() racing one operation, every merge
/// scenario = (cfg, set-up operations run to completion or until parked, the racing operation)
type Opn = (i64, i64, i64);
fn race_scenarios() -> Vec<(Cfg, Vec<Opn>, Opn)> {
    let c = |ctor: i64, max: usize| Cfg { ctor, max, ptmo: 0 };
    vec![
        (c(2, 1), vec![], (OP_GET, 1, 0)),                      // try_get, object present
        (c(2, 1), vec![], (OP_GET, 0, 0)),                      // get
        (c(2, 1), vec![], (OP_GET, 3, 0)),                      // timeout_get(0)
        (c(2, 1), vec![], (OP_GET, 1, 1)),                      // try_remove
        (c(2, 1), vec![], (OP_GET, 0, 1)),                      // remove
        (c(0, 1), vec![], (OP_ADD, 0, 0)),                      // try_add, slot free
        (c(0, 1), vec![], (OP_ADD, 0, 1)),                      // add, slot free
        (c(0, 1), vec![(OP_ADD, 0, 0)], (OP_ADD, 1, 1)),        // add parks on the full pool
        (c(0, 1), vec![], (OP_GET, 0, 0)),                      // get parks on the empty pool
        (c(2, 1), vec![(OP_GET, 1, 0)], (OP_DROP, 0, 0)),       // return
        (c(2, 1), vec![(OP_GET, 1, 0)], (OP_TAKE, 0, 0)),       // take
        (c(2, 1), vec![], (OP_STATUS, 0, 0)),                   // status
        (c(2, 2), vec![(OP_GET, 1, 0)], (OP_DROP, 1, 0)),       // return, queue not empty
        (c(0, 2), vec![(OP_ADD, 0, 0)], (OP_ADD, 1, 0)),        // try_add, queue not empty
        (c(2, 1), vec![(OP_GET, 1, 0), (OP_GET, 0, 0)], (OP_DROP, 0, 0)), // return wakes a parked get
        (c(0, 1), vec![(OP_ADD, 0, 0), (OP_ADD, 1, 1)], (OP_GET, 1, 1)),  // try_remove wakes a parked add
        (c(2, 1), vec![(OP_GET, 1, 0)], (OP_GET, 2, 0)),        // timeout_get(None) parks, object out
    ]
}

const RACE_KMAX: i64 = 8;
fn race_patterns() -> Vec<[i64; 4]> {
    let mut v = vec![];
    for a in 0..=RACE_KMAX {
        for b in a..=RACE_KMAX {
            for c in b..=RACE_KMAX {
                for d in c..=RACE_KMAX {
                    v.push([a, b, c, d]);
                }
            }
        }
    }
    v
}

fn race_trace(scn: &(Cfg, Vec<Opn>, Opn), ks: [i64; 4]) -> TraceOut {
    let cfg = scn.0.clone();
    let mut w = World::new(&cfg);
    let mut out = TraceOut {
        cfg,
        labels: vec![],
        obs: vec![],
        err: None,
    };
    // set-up: run to completion, or until the operation is parked
    for (op, a, b) in &scn.1 {
        let t = w.sched.ntasks() as i64;
        if !run_label(&mut w, &mut out, vec![L_START, t, *op, *a, *b]) {
            return out;
        }
        loop {
            match w.sched.state(t as usize) {
                Yield::Done(_) => break,
                Yield::Sem if !w.sched.woken(t as usize) => break,
                _ => {}
            }
            if !run_label(&mut w, &mut out, vec![L_STEP, t, 0, 0, 0]) {
                return out;
            }
        }
    }
    let (op, a, b) = scn.2;
    let mut ta: Option<i64> = None;
    let mut tc: i64 = -1;
    let mut done_a = 0;
    for (j, k) in ks.iter().enumerate() {
        while done_a < *k {
            let l = match ta {
                None => {
                    let t = w.sched.ntasks() as i64;
                    ta = Some(t);
                    vec![L_START, t, op, a, b]
                }
                Some(t) => {
                    if matches!(w.sched.state(t as usize), Yield::Done(_)) {
                        break;
                    }
                    vec![L_STEP, t, 0, 0, 0]
                }
            };
            if !run_label(&mut w, &mut out, l) {
                return out;
            }
            done_a += 1;
        }
        let l = if j == 0 {
            tc = w.sched.ntasks() as i64;
            vec![L_START, tc, OP_CLOSE, 0, 0]
        } else {
            vec![L_STEP, tc, 0, 0, 0]
        };
        if !run_label(&mut w, &mut out, l) {
            return out;
        }
    }
    if ta.is_none() {
        let t = w.sched.ntasks() as i64;
        if !run_label(&mut w, &mut out, vec![L_START, t, op, a, b]) {
            return out;
        }
    }
    finish(&mut w, &mut out);
    cleanup(w);
    out
}

fn replay_trace(cfg: Cfg, labels: &[Vec<i64>]) -> TraceOut {
    let mut w = World::new(&cfg);
    let mut out = TraceOut {
        cfg,
        labels: vec![],
        obs: vec![],
        err: None,
    };
    for l in labels {
        let mut l = l.clone();
        l.resize(5, 0);
        if !run_label(&mut w, &mut out, l) {
            break;
        }
    }
    cleanup(w);
    out
}

fn ints(v: &[i64]) -> String {
    let mut s = String::from("[");
    for (i, x) in v.iter().enumerate() {
        if i > 0 {
            s.push(',');
        }
        let _ = write!(s, "{}", x);
    }
    s.push(']');
    s
}
fn print_trace(id: usize, t: &TraceOut) {
    let mut s = String::new();
    let _ = write!(s, "{{\"id\":{},\"cfg\":{},\"labels\":[", id, ints(&t.cfg.to_ints()));
    for (i, l) in t.labels.iter().enumerate() {
        if i > 0 {
            s.push(',');
        }
        s.push_str(&ints(l));
    }
    s.push_str("],\"obs\":[");
    for (i, l) in t.obs.iter().enumerate() {
        if i > 0 {
            s.push(',');
        }
        s.push_str(&ints(l));
    }
    s.push(']');
    if let Some(e) = &t.err {
        let _ = write!(s, ",\"err\":\"{}\"", e.replace('"', "'"));
    }
    s.push('}');
    println!("{}", s);
}

/// minimal parser for the replay input: finds the integer arrays after "cfg" and "labels"
fn parse_replay_line(line: &str) -> Option<(Cfg, Vec<Vec<i64>>)> {
    fn parse_arr(s: &str) -> (Vec<i64>, usize) {
        let end = s.find(']').unwrap();
        let v = s[1..end]
            .split(',')
            .filter(|x| !x.trim().is_empty())
            .map(|x| x.trim().parse::<i64>().unwrap())
            .collect();
        (v, end + 1)
    }
    let ci = line.find("\"cfg\"")?;
    let cs = &line[ci..];
    let cb = cs.find('[')?;
    let (cfg, _) = parse_arr(&cs[cb..]);
    let li = line.find("\"labels\"")?;
    let ls = &line[li..];
    let lb = ls.find('[')?;
    let mut rest = &ls[lb + 1..];
    let mut labels = vec![];
    loop {
        let r = rest.trim_start_matches([',', ' ']);
        if r.starts_with('[') {
            let (v, n) = parse_arr(r);
            labels.push(v);
            rest = &r[n..];
        } else {
            break;
        }
    }
    Some((Cfg::from_ints(&cfg), labels))
}

fn main() {
    std::panic::set_hook(Box::new(|info| {
        if std::thread::current().name() == Some("main") {
            eprintln!("harness panic: {}", info);
        }
    }));
    let args: Vec<String> = std::env::args().collect();
    match args.get(1).map(|s| s.as_str()) {
        Some("gen") => {
            let seed: u64 = args[2].parse().unwrap();
            let n: usize = args[3].parse().unwrap();
            let profile = match args[4].as_str() {
                "core" => Profile::Core,
                "full" => Profile::Full,
                "close" => Profile::Close,
                _ => Profile::Mixed,
            };
            let max_labels: usize = args[5].parse().unwrap();
            let mut master = Rng::new(seed);
            if args[4] == "race" {
                // every merge of close()'s labels with one other operation; all of them when n
                // covers the space, a seeded sample otherwise
                let scns = race_scenarios();
                let pats = race_patterns();
                let total = scns.len() * pats.len();
                for i in 0..n {
                    let idx = if n >= total { i % total } else { master.below(total as u64) as usize };
                    let t = race_trace(&scns[idx / pats.len()], pats[idx % pats.len()]);
                    print_trace(i, &t);
                }
                return;
            }
            for i in 0..n {
                let mut g = Gen {
                    rng: master.fork(),
                    profile,
                    max_labels,
                };
                let t = gen_trace(&mut g);
                print_trace(i, &t);
            }
        }
        Some("seq") => {
            // seq <ctor> <max_size> <pool timeout code> <max depth> <max edges>
            let cfg = Cfg { ctor: args[2].parse().unwrap(), max: args[3].parse().unwrap(), ptmo: args[4].parse().unwrap() };
            let n = explore_seq(cfg, args[5].parse().unwrap(), args[6].parse().unwrap());
            eprintln!("seq: {} traces", n);
        }
        Some("replay") => {
            let text = std::fs::read_to_string(&args[2]).unwrap();
            for (i, line) in text.lines().enumerate() {
                if let Some((cfg, labels)) = parse_replay_line(line) {
                    let t = replay_trace(cfg, &labels);
                    print_trace(i, &t);
                }
            }
        }
        _ => {
            eprintln!("usage: h1_unmanaged gen <seed> <n> <profile> <maxlabels> | replay <file>");
            std::process::exit(2);
        }
    }
}
