//! Integer encoding shared with coq/theories/Config/{Decode,Obs}.v and lib/config.py:
//!   str = len b1..blen      option X = 0 | 1 X      list X = n X1..Xn
//!   dur = secs nanos        bool / enum = code
use std::time::Duration;

pub type Z = i128;

pub struct Cur<'a> {
    pub d: &'a [Z],
    pub i: usize,
}

impl<'a> Cur<'a> {
    pub fn new(d: &'a [Z]) -> Self {
        Cur { d, i: 0 }
    }
    pub fn int(&mut self) -> Z {
        let v = self.d.get(self.i).copied().unwrap_or(0);
        self.i += 1;
        v
    }
    pub fn boolean(&mut self) -> bool {
        self.int() != 0
    }
    pub fn bytes(&mut self) -> Vec<u8> {
        let n = self.int().max(0) as usize;
        (0..n).map(|_| self.int() as u8).collect()
    }
    pub fn string(&mut self) -> String {
        String::from_utf8(self.bytes()).expect("case strings are UTF-8")
    }
    pub fn opt<T>(&mut self, f: impl FnOnce(&mut Self) -> T) -> Option<T> {
        if self.int() == 0 {
            None
        } else {
            Some(f(self))
        }
    }
    pub fn list<T>(&mut self, mut f: impl FnMut(&mut Self) -> T) -> Vec<T> {
        let n = self.int().max(0) as usize;
        (0..n).map(|_| f(self)).collect()
    }
    pub fn dur(&mut self) -> Duration {
        let s = self.int() as u64;
        let n = self.int() as u32;
        Duration::new(s, n)
    }
}

pub fn e_bytes(o: &mut Vec<Z>, s: &[u8]) {
    o.push(s.len() as Z);
    o.extend(s.iter().map(|b| *b as Z));
}
pub fn e_ostr(o: &mut Vec<Z>, s: Option<&[u8]>) {
    match s {
        None => o.push(0),
        Some(s) => {
            o.push(1);
            e_bytes(o, s)
        }
    }
}
pub fn e_dur(o: &mut Vec<Z>, d: &Duration) {
    o.push(d.as_secs() as Z);
    o.push(d.subsec_nanos() as Z);
}
pub fn e_odur(o: &mut Vec<Z>, d: Option<&Duration>) {
    match d {
        None => o.push(0),
        Some(d) => {
            o.push(1);
            e_dur(o, d)
        }
    }
}

/// deadpool::managed::PoolConfig as max_size, 3 x option dur, queue mode
pub fn e_pool(o: &mut Vec<Z>, max_size: usize, t: &deadpool::managed::Timeouts, qm: Z) {
    o.push(max_size as Z);
    e_odur(o, t.wait.as_ref());
    e_odur(o, t.create.as_ref());
    e_odur(o, t.recycle.as_ref());
    o.push(qm);
}

pub fn qm_code(q: &deadpool::managed::QueueMode) -> Z {
    match q {
        deadpool::managed::QueueMode::Fifo => 0,
        deadpool::managed::QueueMode::Lifo => 1,
    }
}

pub fn d_qm(c: Z) -> deadpool::managed::QueueMode {
    if c == 0 {
        deadpool::managed::QueueMode::Fifo
    } else {
        deadpool::managed::QueueMode::Lifo
    }
}

pub fn d_timeouts(c: &mut Cur) -> deadpool::managed::Timeouts {
    let mut t = deadpool::managed::Timeouts::default();
    t.wait = c.opt(|c| c.dur());
    t.create = c.opt(|c| c.dur());
    t.recycle = c.opt(|c| c.dur());
    t
}

pub fn d_pool(c: &mut Cur) -> deadpool::managed::PoolConfig {
    let mut p = deadpool::managed::PoolConfig::new(c.int() as usize);
    p.timeouts = d_timeouts(c);
    p.queue_mode = d_qm(c.int());
    p
}

/// queue mode as shown by a Debug rendering that contains a PoolConfig (no getter exists);
/// 9 = not found
pub fn qm_from_debug(dbg: &str) -> Z {
    match (dbg.rfind("queue_mode: Fifo"), dbg.rfind("queue_mode: Lifo")) {
        (Some(a), Some(b)) => {
            if a > b {
                0
            } else {
                1
            }
        }
        (Some(_), None) => 0,
        (None, Some(_)) => 1,
        (None, None) => 9,
    }
}

pub fn json_row(v: &[Z]) -> String {
    let mut s = String::with_capacity(v.len() * 3 + 2);
    s.push('[');
    for (i, x) in v.iter().enumerate() {
        if i > 0 {
            s.push(',');
        }
        s.push_str(&x.to_string());
    }
    s.push(']');
    s
}

pub fn json_rows(v: &[Vec<Z>]) -> String {
    let mut s = String::from("[");
    for (i, r) in v.iter().enumerate() {
        if i > 0 {
            s.push(',');
        }
        s.push_str(&json_row(r));
    }
    s.push(']');
    s
}
