//! H6 - config differential harness (C18, C19).
//!   h6_config gen <seed> <n> <profile>     profile: pg | redis | contact | conv | serde
//!   h6_config replay <file>                one JSON case per line: {"cfg":[..],"labels":[[..]..]}
//! prints one JSON line per case: {"id":..,"cfg":[ints],"labels":[[ints]..],"obs":[[ints]..]}
//! `labels` = input rows followed by the oracle rows computed here (what the third-party
//! parsers returned); `obs` = what the real functions of /repo returned.
#[path = "../../harness/src/rng.rs"]
mod rng;
mod snt;
mod enc;
mod gen;
mod pg;
mod rds;
mod srd;

use enc::*;
use std::io::{BufRead, Write};

fn run_case(cfg: &[Z], rows: &[Vec<Z>], net: &mut Option<rds::Net>, strings: &[Vec<u8>]) -> Result<(Vec<Z>, Vec<Vec<Z>>, Vec<Vec<Z>>), String> {
    match cfg.first().copied().unwrap_or(0) {
        1 => Ok(pg::run(cfg, rows, strings)),
        2 | 3 | 4 => {
            if net.is_none() {
                *net = Some(rds::Net::new());
            }
            Ok(rds::run(cfg, rows, net.as_ref().unwrap()))
        }
        5 => Ok(rds::run_conv(rows)),
        6 => srd::run(cfg, rows),
        k => Err(format!("unknown case kind {}", k)),
    }
}

fn emit(out: &mut impl Write, id: usize, r: Result<(Vec<Z>, Vec<Vec<Z>>, Vec<Vec<Z>>), String>, cfg: &[Z], rows: &[Vec<Z>]) {
    match r {
        Ok((c, l, o)) => writeln!(out, "{{\"id\":{},\"cfg\":{},\"labels\":{},\"obs\":{}}}", id, json_row(&c), json_rows(&l), json_rows(&o)).unwrap(),
        Err(e) => writeln!(
            out,
            "{{\"id\":{},\"cfg\":{},\"labels\":{},\"obs\":[],\"err\":{:?}}}",
            id,
            json_row(cfg),
            json_rows(rows),
            e
        )
        .unwrap(),
    }
}

fn parse_rows(s: &str) -> (Vec<Z>, Vec<Vec<Z>>) {
    // minimal reader for {"cfg":[..],"labels":[[..],..]} (integers only)
    fn ints(s: &str) -> Vec<Z> {
        s.split(',').filter_map(|x| x.trim().parse::<Z>().ok()).collect()
    }
    let ci = s.find("\"cfg\"").expect("cfg");
    let cs = s[ci..].find('[').unwrap() + ci;
    let ce = s[cs..].find(']').unwrap() + cs;
    let cfg = ints(&s[cs + 1..ce]);
    let li = s.find("\"labels\"").expect("labels");
    let ls = s[li..].find('[').unwrap() + li;
    let mut rows = vec![];
    let mut depth = 0;
    let mut start = 0;
    for (i, ch) in s[ls..].char_indices() {
        match ch {
            '[' => {
                depth += 1;
                if depth == 2 {
                    start = ls + i + 1;
                }
            }
            ']' => {
                if depth == 2 {
                    rows.push(ints(&s[start..ls + i]));
                }
                depth -= 1;
                if depth == 0 {
                    break;
                }
            }
            _ => {}
        }
    }
    (cfg, rows)
}

fn main() {
    if std::env::var_os("H6_VERBOSE").is_none() {
        std::panic::set_hook(Box::new(|_| {}));
    }
    let args: Vec<String> = std::env::args().collect();
    let strings = gen::strings();
    let stdout = std::io::stdout();
    let mut out = std::io::BufWriter::new(stdout.lock());
    let mut net: Option<rds::Net> = None;
    match args.get(1).map(|s| s.as_str()) {
        Some("gen") => {
            let seed: u64 = args[2].parse().unwrap();
            let n: usize = args[3].parse().unwrap();
            let profile = args[4].as_str();
            let mut r = rng::Rng::new(seed);
            for id in 0..n {
                let mut cr = r.fork();
                let (cfg, rows) = match profile {
                    "pg" => gen::gen_pg(&mut cr),
                    "redis" => gen::gen_redis(&mut cr),
                    "contact" => gen::gen_contact(&mut cr),
                    "conv" => gen::gen_conv(&mut cr),
                    "serde" => gen::gen_serde(&mut cr),
                    p => panic!("unknown profile {}", p),
                };
                let res = run_case(&cfg, &rows, &mut net, &strings);
                emit(&mut out, id, res, &cfg, &rows);
            }
        }
        Some("replay") => {
            let f = std::fs::File::open(&args[2]).expect("replay file");
            for (id, line) in std::io::BufReader::new(f).lines().enumerate() {
                let line = line.unwrap();
                if line.trim().is_empty() {
                    continue;
                }
                let (cfg, rows) = parse_rows(&line);
                let res = run_case(&cfg, &rows, &mut net, &strings);
                emit(&mut out, id, res, &cfg, &rows);
            }
        }
        Some("sentinel") => {
            use std::io::Write as _;
            out.write_all(snt::probe().as_bytes()).unwrap();
        }
        Some("defaults") => {
            // what the configuration types hold when a section or field is omitted (one JSON line per item)
            use std::fmt::Write as _;
            let mut o = String::new();
            let mut item = |k: &str, v: String| {
                let _ = writeln!(o, "{{\"item\":\"{}\",\"value\":{:?}}}", k, v);
            };
            match serde_json::from_str::<deadpool_redis::sentinel::Config>("{}") {
                Ok(c) => {
                    item("sentinel.omitted.master_name", c.master_name.clone());
                    item("sentinel.omitted.server_type", format!("{:?}", c.server_type));
                    item("sentinel.omitted.urls", format!("{:?}", c.urls));
                    item("sentinel.omitted.connections_is_none", format!("{}", c.connections.is_none()));
                    item("sentinel.omitted.pool_is_none", format!("{}", c.pool.is_none()));
                    item("sentinel.omitted.node_connection_info_is_none", format!("{}", c.node_connection_info.is_none()));
                }
                Err(e) => item("sentinel.omitted.error", format!("{}", e)),
            }
            let d = deadpool_redis::sentinel::Config::default();
            item("sentinel.default.master_name", d.master_name.clone());
            item("sentinel.default.server_type", format!("{:?}", d.server_type));
            item("sentinel.default.urls", format!("{:?}", d.urls));
            match serde_json::from_str::<deadpool_redis::cluster::Config>("{}") {
                Ok(c) => {
                    item("cluster.omitted.urls", format!("{:?}", c.urls));
                    item("cluster.omitted.connections_is_none", format!("{}", c.connections.is_none()));
                    item("cluster.omitted.pool_is_none", format!("{}", c.pool.is_none()));
                    item("cluster.omitted.read_from_replicas", format!("{}", c.read_from_replicas));
                }
                Err(e) => item("cluster.omitted.error", format!("{}", e)),
            }
            match serde_json::from_str::<deadpool_redis::Config>("{}") {
                Ok(c) => {
                    item("redis.omitted.url", format!("{:?}", c.url));
                    item("redis.omitted.connection_is_none", format!("{}", c.connection.is_none()));
                    item("redis.omitted.pool_is_none", format!("{}", c.pool.is_none()));
                }
                Err(e) => item("redis.omitted.error", format!("{}", e)),
            }
            // PoolConfig: max_size is a required field; if a text that omits it is accepted at all, the value
            // must be the documented default (physical CPUs * 4), as must PoolConfig::default()
            let cpus4 = num_cpus::get_physical() * 4;
            for (k, text) in [("empty", "{}"), ("queue_mode_only", "{\"queue_mode\":\"Lifo\"}"), ("timeouts_only", "{\"timeouts\":{\"wait\":null,\"create\":null,\"recycle\":null}}")] {
                let v = match serde_json::from_str::<deadpool::managed::PoolConfig>(text) {
                    Ok(c) if c.max_size == cpus4 => "documented default".to_string(),
                    Ok(c) => format!("{}", c.max_size),
                    Err(_) => "rejected".to_string(),
                };
                item(&format!("poolconfig.omitted_max_size.{}", k), v);
            }
            item("poolconfig.default.max_size_is_cpus_times_4", format!("{}", deadpool::managed::PoolConfig::default().max_size == cpus4));
            match serde_json::from_str::<deadpool::managed::PoolConfig>("{\"max_size\":3}") {
                Ok(c) => {
                    item("poolconfig.omitted_sections.timeouts", format!("{:?} {:?} {:?}", c.timeouts.wait, c.timeouts.create, c.timeouts.recycle));
                    item("poolconfig.omitted_sections.queue_mode", format!("{:?}", c.queue_mode));
                }
                Err(e) => item("poolconfig.omitted_sections.error", format!("{}", e)),
            }
            let d = deadpool_redis::Config::default();
            item("redis.default.url", format!("{:?}", d.url));
            item("redis.default.connection_is_none", format!("{}", d.connection.is_none()));
            let d = deadpool_redis::cluster::Config::default();
            item("cluster.default.urls", format!("{:?}", d.urls));
            item("cluster.default.read_from_replicas", format!("{}", d.read_from_replicas));
            use std::io::Write as _;
            out.write_all(o.as_bytes()).unwrap();
        }
        _ => {
            eprintln!("usage: h6_config gen <seed> <n> <profile> | replay <file>");
            std::process::exit(2);
        }
    }
    out.flush().unwrap();
}
