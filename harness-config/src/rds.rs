//! Redis cases: builder()/create_pool() of the three Config flavours, contact observation
//! on loopback listeners, and the From conversions in both directions.
use crate::enc::*;
use deadpool_redis as dr;
use deadpool_redis::Runtime;
use redis::IntoConnectionInfo;
use std::os::unix::ffi::OsStrExt;
use std::panic::{catch_unwind, AssertUnwindSafe};
use std::path::PathBuf;
use std::sync::atomic::{AtomicUsize, Ordering};
use std::sync::Arc;

// ------------------------------------------------------------------ decoders (deadpool side)
pub fn d_daddr(c: &mut Cur) -> dr::ConnectionAddr {
    match c.int() {
        0 => {
            let h = c.string();
            dr::ConnectionAddr::Tcp(h, c.int() as u16)
        }
        1 => {
            let host = c.string();
            let port = c.int() as u16;
            let insecure = c.boolean();
            dr::ConnectionAddr::TcpTls { host, port, insecure }
        }
        _ => dr::ConnectionAddr::Unix(PathBuf::from(std::ffi::OsStr::from_bytes(&c.bytes()))),
    }
}
pub fn d_dredis(c: &mut Cur) -> dr::RedisConnectionInfo {
    let mut r = dr::RedisConnectionInfo::default();
    r.db = c.int() as i64;
    r.username = c.opt(|c| c.string());
    r.password = c.opt(|c| c.string());
    r.protocol = if c.int() == 0 { dr::ProtocolVersion::RESP2 } else { dr::ProtocolVersion::RESP3 };
    r
}
pub fn d_dinfo(c: &mut Cur) -> dr::ConnectionInfo {
    let mut i = dr::ConnectionInfo::default();
    i.addr = d_daddr(c);
    i.redis = d_dredis(c);
    i
}
pub fn d_dnode(c: &mut Cur) -> dr::sentinel::SentinelNodeConnectionInfo {
    let mut n = dr::sentinel::SentinelNodeConnectionInfo::default();
    n.tls_mode = c.opt(|c| if c.int() == 0 { dr::sentinel::TlsMode::Secure } else { dr::sentinel::TlsMode::Insecure });
    n.redis_connection_info = c.opt(|c| d_dredis(c));
    n
}
// ------------------------------------------------------------------ decoders (redis side)
pub fn d_raddr(c: &mut Cur) -> redis::ConnectionAddr {
    match c.int() {
        0 => {
            let h = c.string();
            redis::ConnectionAddr::Tcp(h, c.int() as u16)
        }
        1 => {
            let host = c.string();
            let port = c.int() as u16;
            let insecure = c.boolean();
            let _tls = c.boolean(); // TlsConnParams cannot be constructed without the TLS feature
            redis::ConnectionAddr::TcpTls { host, port, insecure, tls_params: None }
        }
        _ => redis::ConnectionAddr::Unix(PathBuf::from(std::ffi::OsStr::from_bytes(&c.bytes()))),
    }
}
pub fn d_rredis(c: &mut Cur) -> redis::RedisConnectionInfo {
    // struct literal without `..`: a field added by the redis crate breaks the build
    redis::RedisConnectionInfo {
        db: c.int() as i64,
        username: c.opt(|c| c.string()),
        password: c.opt(|c| c.string()),
        protocol: if c.int() == 0 { redis::ProtocolVersion::RESP2 } else { redis::ProtocolVersion::RESP3 },
    }
}
pub fn d_rinfo(c: &mut Cur) -> redis::ConnectionInfo {
    let addr = d_raddr(c);
    let redis = d_rredis(c);
    redis::ConnectionInfo { addr, redis }
}
pub fn d_rnode(c: &mut Cur) -> redis::sentinel::SentinelNodeConnectionInfo {
    redis::sentinel::SentinelNodeConnectionInfo {
        tls_mode: c.opt(|c| if c.int() == 0 { redis::TlsMode::Secure } else { redis::TlsMode::Insecure }),
        redis_connection_info: c.opt(|c| d_rredis(c)),
    }
}
// ------------------------------------------------------------------ encoders
pub fn e_daddr(o: &mut Vec<Z>, a: &dr::ConnectionAddr) {
    match a {
        dr::ConnectionAddr::Tcp(h, p) => {
            o.push(0);
            e_bytes(o, h.as_bytes());
            o.push(*p as Z);
        }
        dr::ConnectionAddr::TcpTls { host, port, insecure } => {
            o.push(1);
            e_bytes(o, host.as_bytes());
            o.push(*port as Z);
            o.push(*insecure as Z);
        }
        dr::ConnectionAddr::Unix(p) => {
            o.push(2);
            e_bytes(o, p.as_os_str().as_bytes());
        }
    }
}
pub fn e_dredis(o: &mut Vec<Z>, r: &dr::RedisConnectionInfo) {
    o.push(r.db as Z);
    e_ostr(o, r.username.as_ref().map(|s| s.as_bytes()));
    e_ostr(o, r.password.as_ref().map(|s| s.as_bytes()));
    o.push(match r.protocol {
        dr::ProtocolVersion::RESP2 => 0,
        dr::ProtocolVersion::RESP3 => 1,
    });
}
pub fn e_dinfo(o: &mut Vec<Z>, i: &dr::ConnectionInfo) {
    e_daddr(o, &i.addr);
    e_dredis(o, &i.redis);
}
pub fn e_raddr(o: &mut Vec<Z>, a: &redis::ConnectionAddr) {
    match a {
        redis::ConnectionAddr::Tcp(h, p) => {
            o.push(0);
            e_bytes(o, h.as_bytes());
            o.push(*p as Z);
        }
        redis::ConnectionAddr::TcpTls { host, port, insecure, tls_params } => {
            o.push(1);
            e_bytes(o, host.as_bytes());
            o.push(*port as Z);
            o.push(*insecure as Z);
            o.push(tls_params.is_some() as Z);
        }
        redis::ConnectionAddr::Unix(p) => {
            o.push(2);
            e_bytes(o, p.as_os_str().as_bytes());
        }
    }
}
pub fn e_rredis(o: &mut Vec<Z>, r: &redis::RedisConnectionInfo) {
    o.push(r.db as Z);
    e_ostr(o, r.username.as_ref().map(|s| s.as_bytes()));
    e_ostr(o, r.password.as_ref().map(|s| s.as_bytes()));
    o.push(match r.protocol {
        redis::ProtocolVersion::RESP2 => 0,
        redis::ProtocolVersion::RESP3 => 1,
    });
}
pub fn e_rinfo(o: &mut Vec<Z>, i: &redis::ConnectionInfo) {
    e_raddr(o, &i.addr);
    e_rredis(o, &i.redis);
}
pub fn e_dnode(o: &mut Vec<Z>, n: &dr::sentinel::SentinelNodeConnectionInfo) {
    match n.tls_mode {
        None => o.push(0),
        Some(dr::sentinel::TlsMode::Secure) => o.extend([1, 0]),
        Some(dr::sentinel::TlsMode::Insecure) => o.extend([1, 1]),
    }
    match &n.redis_connection_info {
        None => o.push(0),
        Some(r) => {
            o.push(1);
            e_dredis(o, r)
        }
    }
}
pub fn e_rnode(o: &mut Vec<Z>, n: &redis::sentinel::SentinelNodeConnectionInfo) {
    match n.tls_mode {
        None => o.push(0),
        Some(redis::TlsMode::Secure) => o.extend([1, 0]),
        Some(redis::TlsMode::Insecure) => o.extend([1, 1]),
    }
    match &n.redis_connection_info {
        None => o.push(0),
        Some(r) => {
            o.push(1);
            e_rredis(o, r)
        }
    }
}

// ------------------------------------------------------------------ loopback listeners
/// Three listeners on ephemeral ports (symbolic ports 1, 2, 3 in the cases) and one on the
/// default port 6379 (best effort). A connection is counted and dropped at once.
pub struct Net {
    pub rt: tokio::runtime::Runtime,
    pub ports: Vec<(Z, u16)>, // (symbolic, real)
    pub hits: Vec<Arc<AtomicUsize>>,
    pub default_bound: bool,
}

impl Net {
    pub fn new() -> Net {
        let rt = tokio::runtime::Builder::new_current_thread().enable_all().build().unwrap();
        let mut ports = vec![];
        let mut hits = vec![];
        let mut default_bound = false;
        for sym in [1, 2, 3, 6379] {
            let bind = if sym == 6379 { 6379 } else { 0 };
            let l = match std::net::TcpListener::bind(("127.0.0.1", bind)) {
                Ok(l) => l,
                Err(_) => continue,
            };
            if sym == 6379 {
                default_bound = true;
            }
            l.set_nonblocking(true).unwrap();
            let real = l.local_addr().unwrap().port();
            let cnt = Arc::new(AtomicUsize::new(0));
            let c2 = cnt.clone();
            let _g = rt.enter();
            let tl = tokio::net::TcpListener::from_std(l).unwrap();
            rt.spawn(async move {
                loop {
                    if let Ok((s, _)) = tl.accept().await {
                        c2.fetch_add(1, Ordering::SeqCst);
                        drop(s);
                    }
                }
            });
            ports.push((sym as Z, real));
            hits.push(cnt);
        }
        Net { rt, ports, hits, default_bound }
    }
    pub fn real(&self, sym: Z) -> Option<u16> {
        self.ports.iter().find(|(s, _)| *s == sym).map(|(_, r)| *r)
    }
    pub fn sym(&self, real: u16) -> Z {
        self.ports.iter().find(|(_, r)| *r == real).map(|(s, _)| *s).unwrap_or(real as Z)
    }
    fn reset(&self) {
        for h in &self.hits {
            h.store(0, Ordering::SeqCst);
        }
    }
    /// symbolic ports that were contacted since reset
    fn contacted(&self) -> Vec<Z> {
        // let the accept tasks drain what is already queued
        self.rt.block_on(async {
            for _ in 0..20 {
                tokio::task::yield_now().await;
            }
            tokio::time::sleep(std::time::Duration::from_millis(2)).await;
            for _ in 0..20 {
                tokio::task::yield_now().await;
            }
        });
        let mut v = vec![];
        for (i, h) in self.hits.iter().enumerate() {
            if h.load(Ordering::SeqCst) > 0 {
                v.push(self.ports[i].0);
            }
        }
        v.sort();
        v
    }
}

/// in contact cases symbolic ports 1..3 (and "@@k" in URLs) stand for the listeners
fn subst_port(net: &Net, contact: bool, p: u16) -> u16 {
    if contact && (1..=3).contains(&p) {
        net.real(p as Z).unwrap_or(p)
    } else {
        p
    }
}
fn subst_url(net: &Net, contact: bool, u: String) -> String {
    if !contact {
        return u;
    }
    let mut s = u;
    for k in 1..=3 {
        if let Some(r) = net.real(k) {
            s = s.replace(&format!("@@{}", k), &r.to_string());
        }
    }
    s
}
fn subst_dinfo(net: &Net, contact: bool, mut i: dr::ConnectionInfo) -> dr::ConnectionInfo {
    i.addr = match i.addr {
        dr::ConnectionAddr::Tcp(h, p) => dr::ConnectionAddr::Tcp(h, subst_port(net, contact, p)),
        dr::ConnectionAddr::TcpTls { host, port, insecure } => {
            dr::ConnectionAddr::TcpTls { host, port: subst_port(net, contact, port), insecure }
        }
        other => other,
    };
    i
}
/// oracle output back to symbolic ports
fn unsubst_rinfo(net: &Net, contact: bool, mut i: redis::ConnectionInfo) -> redis::ConnectionInfo {
    if !contact {
        return i;
    }
    i.addr = match i.addr {
        redis::ConnectionAddr::Tcp(h, p) => redis::ConnectionAddr::Tcp(h, net.sym(p) as u16),
        other => other,
    };
    i
}
/// the same description on the redis crate's side, built by the harness itself (not through
/// deadpool_redis' From impls): what the oracle is asked about
fn own_rinfo(i: &dr::ConnectionInfo) -> redis::ConnectionInfo {
    let addr = match &i.addr {
        dr::ConnectionAddr::Tcp(h, p) => redis::ConnectionAddr::Tcp(h.clone(), *p),
        dr::ConnectionAddr::TcpTls { host, port, insecure } => redis::ConnectionAddr::TcpTls {
            host: host.clone(),
            port: *port,
            insecure: *insecure,
            tls_params: None,
        },
        dr::ConnectionAddr::Unix(p) => redis::ConnectionAddr::Unix(p.clone()),
    };
    redis::ConnectionInfo {
        addr,
        redis: redis::RedisConnectionInfo {
            db: i.redis.db,
            username: i.redis.username.clone(),
            password: i.redis.password.clone(),
            protocol: match i.redis.protocol {
                dr::ProtocolVersion::RESP2 => redis::ProtocolVersion::RESP2,
                dr::ProtocolVersion::RESP3 => redis::ProtocolVersion::RESP3,
            },
        },
    }
}
fn default_rinfo() -> redis::ConnectionInfo {
    redis::ConnectionInfo {
        addr: redis::ConnectionAddr::Tcp("127.0.0.1".to_string(), 6379),
        redis: redis::RedisConnectionInfo {
            db: 0,
            username: None,
            password: None,
            protocol: redis::ProtocolVersion::RESP2,
        },
    }
}

fn err_code(e: &dr::ConfigError) -> Z {
    match e {
        dr::ConfigError::UrlAndConnectionSpecified => 1,
        dr::ConfigError::Redis(_) => 2,
    }
}

enum Flavour {
    Plain(dr::Config),
    Cluster(dr::cluster::Config),
    Sentinel(dr::sentinel::Config),
}

/// cfg = [kind 2|3|4, dflt_max, runtime, contact]; rows in: 0 the Config. Rows out: 0 as
/// given; 1 oracles: option (list rinfo) parsed URLs, accept_urls, accept_connections,
/// accept_default. Observations: 0 builder, 1 create_pool, 2 contacted listeners.
pub fn run(cfg: &[Z], rows: &[Vec<Z>], net: &Net) -> (Vec<Z>, Vec<Vec<Z>>, Vec<Vec<Z>>) {
    let kind = cfg[0];
    let want_rt = cfg.get(2).copied().unwrap_or(0) != 0;
    let contact = cfg.get(3).copied().unwrap_or(0) != 0;
    let mut c = Cur::new(&rows[0]);
    // ---- decode the Config and work out the oracles on the raw data
    let urls: Option<Vec<String>>;
    let conns: Option<Vec<dr::ConnectionInfo>>;
    let fl = match kind {
        2 => {
            let url = c.opt(|c| c.string()).map(|u| subst_url(net, contact, u));
            let conn = c.opt(|c| d_dinfo(c)).map(|i| subst_dinfo(net, contact, i));
            let pool = c.opt(|c| d_pool(c));
            urls = url.clone().map(|u| vec![u]);
            conns = conn.clone().map(|i| vec![i]);
            let mut x = dr::Config::from_url("");
            x.url = url;
            x.connection = conn;
            x.pool = pool;
            Flavour::Plain(x)
        }
        3 => {
            let us = c.opt(|c| c.list(|c| c.string())).map(|v| v.into_iter().map(|u| subst_url(net, contact, u)).collect::<Vec<_>>());
            let cs = c.opt(|c| c.list(|c| d_dinfo(c))).map(|v| v.into_iter().map(|i| subst_dinfo(net, contact, i)).collect::<Vec<_>>());
            let pool = c.opt(|c| d_pool(c));
            let rfr = c.boolean();
            urls = us.clone();
            conns = cs.clone();
            let mut x = dr::cluster::Config::from_urls(Vec::<String>::new());
            x.urls = us;
            x.connections = cs;
            x.pool = pool;
            x.read_from_replicas = rfr;
            Flavour::Cluster(x)
        }
        _ => {
            let us = c.opt(|c| c.list(|c| c.string())).map(|v| v.into_iter().map(|u| subst_url(net, contact, u)).collect::<Vec<_>>());
            let st = if c.int() == 0 { dr::sentinel::SentinelServerType::Master } else { dr::sentinel::SentinelServerType::Replica };
            let mn = c.string();
            let cs = c.opt(|c| c.list(|c| d_dinfo(c))).map(|v| v.into_iter().map(|i| subst_dinfo(net, contact, i)).collect::<Vec<_>>());
            let node = c.opt(|c| d_dnode(c));
            let pool = c.opt(|c| d_pool(c));
            urls = us.clone();
            conns = cs.clone();
            let mut x = dr::sentinel::Config::from_urls(Vec::<String>::new(), mn, st);
            x.urls = us;
            x.connections = cs;
            x.node_connection_info = node;
            x.pool = pool;
            Flavour::Sentinel(x)
        }
    };
    // ---- oracles
    let parsed: Option<Vec<redis::ConnectionInfo>> = urls.as_ref().and_then(|us| {
        us.iter()
            .map(|u| catch_unwind(AssertUnwindSafe(|| u.as_str().into_connection_info())).ok().and_then(|r| r.ok()))
            .collect::<Option<Vec<_>>>()
    });
    let accept = |infos: Option<Vec<redis::ConnectionInfo>>| -> bool {
        let infos = match infos {
            Some(i) => i,
            None => return false,
        };
        match kind {
            2 => true,
            3 => catch_unwind(AssertUnwindSafe(|| redis::cluster::ClusterClientBuilder::new(infos).build().is_ok())).unwrap_or(false),
            _ => catch_unwind(AssertUnwindSafe(|| {
                redis::sentinel::SentinelClient::build(infos, String::new(), None, redis::sentinel::SentinelServerType::Master).is_ok()
            }))
            .unwrap_or(false),
        }
    };
    let acc_urls = accept(parsed.clone());
    let acc_conns = accept(conns.as_ref().map(|cs| cs.iter().map(own_rinfo).collect()));
    let acc_default = accept(Some(vec![default_rinfo()]));
    let mut r1 = vec![];
    match &parsed {
        None => r1.push(0),
        Some(l) => {
            r1.push(1);
            r1.push(l.len() as Z);
            for i in l {
                e_rinfo(&mut r1, &unsubst_rinfo(net, contact, i.clone()));
            }
        }
    }
    r1.extend([acc_urls as Z, acc_conns as Z, acc_default as Z]);
    let labels = vec![rows[0].clone(), r1];
    let dflt = deadpool::managed::PoolConfig::default().max_size;
    let cfg_out = vec![kind, dflt as Z, want_rt as Z, contact as Z];

    // ---- the functions under test
    let rt = if want_rt { Some(Runtime::Tokio1) } else { None };
    let mut o0 = vec![];
    let mut o1 = vec![];
    let mut o2 = vec![0];
    macro_rules! drive {
        ($x:expr) => {{
            match catch_unwind(AssertUnwindSafe(|| $x.builder())) {
                Ok(Ok(b)) => {
                    let qm = qm_from_debug(&format!("{:?}", b));
                    match catch_unwind(AssertUnwindSafe(|| b.runtime(Runtime::Tokio1).build())) {
                        Ok(Ok(pool)) => {
                            o0.push(0);
                            e_pool(&mut o0, pool.status().max_size, &pool.timeouts(), qm);
                            if contact && (net.default_bound || urls.is_some() || conns.is_some()) {
                                net.reset();
                                let res = net.rt.block_on(async {
                                    tokio::time::timeout(std::time::Duration::from_secs(5), pool.get()).await
                                });
                                let hit = net.contacted();
                                o2 = vec![1, if res.is_err() { 2 } else if res.unwrap().is_ok() { 1 } else { 0 }];
                                o2.push(hit.len() as Z);
                                o2.extend(hit);
                            }
                        }
                        Ok(Err(_)) => o0.push(8),
                        Err(_) => o0.push(9),
                    }
                }
                Ok(Err(e)) => o0.push(err_code(&e)),
                Err(_) => o0.push(9),
            }
            match catch_unwind(AssertUnwindSafe(|| $x.create_pool(rt))) {
                Ok(Ok(pool)) => {
                    o1.push(0);
                    e_pool(&mut o1, pool.status().max_size, &pool.timeouts(), 9);
                }
                Ok(Err(dr::CreatePoolError::Config(e))) => {
                    o1.push(1);
                    o1.push(err_code(&e))
                }
                Ok(Err(dr::CreatePoolError::Build(_))) => o1.push(2),
                Err(_) => o1.push(9),
            }
        }};
    }
    match &fl {
        Flavour::Plain(x) => drive!(x),
        Flavour::Cluster(x) => drive!(x),
        Flavour::Sentinel(x) => drive!(x),
    }
    (cfg_out, labels, vec![o0, o1, o2])
}

/// cfg = [5]; rows: 0 dinfo, 1 rinfo, 2 dnode, 3 rnode, 4 [d server type, r server type,
/// d tls mode, r tls mode]. Observations: see Obs.v run_conv.
pub fn run_conv(rows: &[Vec<Z>]) -> (Vec<Z>, Vec<Vec<Z>>, Vec<Vec<Z>>) {
    let di = d_dinfo(&mut Cur::new(&rows[0]));
    let ri = d_rinfo(&mut Cur::new(&rows[1]));
    let dn = d_dnode(&mut Cur::new(&rows[2]));
    let rn = d_rnode(&mut Cur::new(&rows[3]));
    let misc = &rows[4];
    let mut obs: Vec<Vec<Z>> = vec![];
    let r = catch_unwind(AssertUnwindSafe(|| {
        let mut obs: Vec<Vec<Z>> = vec![];
        let mut o = vec![];
        let x: redis::ConnectionInfo = di.clone().into();
        e_rinfo(&mut o, &x);
        obs.push(o);
        let mut o = vec![];
        let y: dr::ConnectionInfo = x.into();
        e_dinfo(&mut o, &y);
        obs.push(o);
        let mut o = vec![];
        let y: dr::ConnectionInfo = ri.clone().into();
        e_dinfo(&mut o, &y);
        obs.push(o);
        let mut o = vec![];
        let x: redis::ConnectionInfo = y.into();
        e_rinfo(&mut o, &x);
        obs.push(o);
        let mut o = vec![];
        let x: redis::sentinel::SentinelNodeConnectionInfo = dn.clone().into();
        e_rnode(&mut o, &x);
        obs.push(o);
        let mut o = vec![];
        let y: dr::sentinel::SentinelNodeConnectionInfo = x.into();
        e_dnode(&mut o, &y);
        obs.push(o);
        let mut o = vec![];
        let y: dr::sentinel::SentinelNodeConnectionInfo = rn.clone().into();
        e_dnode(&mut o, &y);
        obs.push(o);
        let mut o = vec![];
        let x: redis::sentinel::SentinelNodeConnectionInfo = y.into();
        e_rnode(&mut o, &x);
        obs.push(o);
        // server type, tls mode
        let dst = if misc[0] == 0 { dr::sentinel::SentinelServerType::Master } else { dr::sentinel::SentinelServerType::Replica };
        let rst = if misc[1] == 0 { redis::sentinel::SentinelServerType::Master } else { redis::sentinel::SentinelServerType::Replica };
        let a: redis::sentinel::SentinelServerType = dst.into();
        let b: dr::sentinel::SentinelServerType = rst.into();
        obs.push(vec![
            match a {
                redis::sentinel::SentinelServerType::Master => 0,
                redis::sentinel::SentinelServerType::Replica => 1,
            },
            match b {
                dr::sentinel::SentinelServerType::Master => 0,
                dr::sentinel::SentinelServerType::Replica => 1,
            },
        ]);
        let dt = if misc[2] == 0 { dr::sentinel::TlsMode::Secure } else { dr::sentinel::TlsMode::Insecure };
        let rtm = if misc[3] == 0 { redis::TlsMode::Secure } else { redis::TlsMode::Insecure };
        let a: redis::TlsMode = dt.into();
        let b: dr::sentinel::TlsMode = rtm.into();
        obs.push(vec![
            match a {
                redis::TlsMode::Secure => 0,
                redis::TlsMode::Insecure => 1,
            },
            match b {
                dr::sentinel::TlsMode::Secure => 0,
                dr::sentinel::TlsMode::Insecure => 1,
            },
        ]);
        // the component conversions on their own
        let mut o = vec![];
        let x: redis::ConnectionAddr = di.addr.clone().into();
        e_raddr(&mut o, &x);
        obs.push(o);
        let mut o = vec![];
        let x: redis::RedisConnectionInfo = di.redis.clone().into();
        e_rredis(&mut o, &x);
        obs.push(o);
        let mut o = vec![];
        let x: dr::ConnectionAddr = ri.addr.clone().into();
        e_daddr(&mut o, &x);
        obs.push(o);
        let mut o = vec![];
        let x: dr::RedisConnectionInfo = ri.redis.clone().into();
        e_dredis(&mut o, &x);
        obs.push(o);
        obs
    }));
    match r {
        Ok(o) => obs = o,
        Err(_) => obs.push(vec![9]),
    }
    (vec![5], rows.to_vec(), obs)
}
