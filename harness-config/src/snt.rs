//! Sentinel probe: a scripted in-process server plays the sentinel and the master it points to and
//! records every command. For a small matrix of `sentinel::Config` values (sentinels named through
//! URLs or through connection structures; node_connection_info with a database and a password or
//! absent; the master name the server knows or another one) a pool is created and one connection is
//! fetched; the output says whether that worked and what reached the server.
use std::{
    io::{Read, Write},
    net::{TcpListener, TcpStream},
    sync::{Arc, Mutex},
    thread,
};

use deadpool_redis::{
    sentinel::{Config, SentinelNodeConnectionInfo, SentinelServerType},
    ConnectionAddr, ConnectionInfo, RedisConnectionInfo, Runtime,
};

type Log = Arc<Mutex<Vec<String>>>;

/// Tries to cut one `*N\r\n($len\r\n<bytes>\r\n){N}` request off the front of `buf`.
fn parse_request(buf: &[u8]) -> Option<(Vec<String>, usize)> {
    fn line(buf: &[u8], at: usize) -> Option<(&[u8], usize)> {
        let rel = buf[at..].windows(2).position(|w| w == b"\r\n")?;
        Some((&buf[at..at + rel], at + rel + 2))
    }
    let (head, mut at) = line(buf, 0)?;
    assert_eq!(head.first(), Some(&b'*'), "only arrays are expected");
    let n: usize = std::str::from_utf8(&head[1..]).ok()?.parse().ok()?;
    let mut args = Vec::with_capacity(n);
    for _ in 0..n {
        let (l, next) = line(buf, at)?;
        assert_eq!(l.first(), Some(&b'$'));
        let len: usize = std::str::from_utf8(&l[1..]).ok()?.parse().ok()?;
        if buf.len() < next + len + 2 {
            return None;
        }
        args.push(String::from_utf8_lossy(&buf[next..next + len]).into_owned());
        at = next + len + 2;
    }
    Some((args, at))
}

fn bulk(s: &str) -> String {
    format!("${}\r\n{}\r\n", s.len(), s)
}

fn reply(args: &[String], master_name: &str, port: u16) -> String {
    let cmd = args[0].to_ascii_uppercase();
    let sub = args.get(1).map(|s| s.to_ascii_uppercase());
    match (cmd.as_str(), sub.as_deref()) {
        ("CLIENT", _) | ("AUTH", _) | ("SELECT", _) => "+OK\r\n".into(),
        ("SENTINEL", Some("MASTERS")) => {
            let fields = [
                "name",
                master_name,
                "ip",
                "127.0.0.1",
                "port",
                &port.to_string(),
                "flags",
                "master",
            ];
            let mut s = format!("*1\r\n*{}\r\n", fields.len());
            for f in fields {
                s.push_str(&bulk(f));
            }
            s
        }
        ("ROLE", _) => format!("*3\r\n{}:0\r\n*0\r\n", bulk("master")),
        ("PING", Some(_)) => bulk(&args[1]),
        ("PING", None) => "+PONG\r\n".into(),
        _ => "-ERR unknown command\r\n".into(),
    }
}

fn serve(mut stream: TcpStream, log: Log, master_name: String, port: u16) {
    let mut buf = Vec::new();
    let mut chunk = [0u8; 4096];
    loop {
        while let Some((args, used)) = parse_request(&buf) {
            buf.drain(..used);
            log.lock().unwrap().push(args.join(" "));
            if stream
                .write_all(reply(&args, &master_name, port).as_bytes())
                .is_err()
            {
                return;
            }
        }
        match stream.read(&mut chunk) {
            Ok(0) | Err(_) => return,
            Ok(n) => buf.extend_from_slice(&chunk[..n]),
        }
    }
}

/// Starts the scripted sentinel + master; returns its port and its log.
fn scripted_server(master_name: &str) -> (u16, Log) {
    let listener = TcpListener::bind("127.0.0.1:0").unwrap();
    let port = listener.local_addr().unwrap().port();
    let log: Log = Arc::default();
    let (log2, name) = (log.clone(), master_name.to_string());
    thread::spawn(move || {
        for stream in listener.incoming().flatten() {
            let (log, name) = (log2.clone(), name.clone());
            thread::spawn(move || serve(stream, log, name, port));
        }
    });
    (port, log)
}


fn node_info() -> SentinelNodeConnectionInfo {
    SentinelNodeConnectionInfo {
        tls_mode: None,
        redis_connection_info: Some(RedisConnectionInfo {
            db: 5,
            username: None,
            password: Some("s3cret".into()),
            ..Default::default()
        }),
    }
}

pub fn probe() -> String {
    let rt = tokio::runtime::Builder::new_current_thread().enable_all().build().unwrap();
    let mut out = String::new();
    for via_urls in [true, false] {
        for with_info in [true, false] {
            for right_name in [true, false] {
                let (port, log) = scripted_server("svc");
                let name = if right_name { "svc" } else { "other" }.to_string();
                let mut cfg = if via_urls {
                    Config::from_urls(vec![format!("redis://127.0.0.1:{port}")], name, SentinelServerType::Master)
                } else {
                    Config {
                        urls: None,
                        connections: Some(vec![ConnectionInfo {
                            addr: ConnectionAddr::Tcp("127.0.0.1".into(), port),
                            redis: RedisConnectionInfo::default(),
                        }]),
                        master_name: name,
                        server_type: SentinelServerType::Master,
                        node_connection_info: None,
                        pool: None,
                    }
                };
                if with_info {
                    cfg = cfg.with_node_connection_info(Some(node_info()));
                }
                let got = rt.block_on(async {
                    match cfg.create_pool(Some(Runtime::Tokio1)) {
                        Ok(pool) => match tokio::time::timeout(std::time::Duration::from_secs(5), pool.get()).await {
                            Ok(Ok(c)) => {
                                drop(c);
                                1
                            }
                            Ok(Err(_)) => 0,
                            Err(_) => -1,
                        },
                        Err(_) => -2,
                    }
                });
                let l = log.lock().unwrap().clone();
                let auth = l.iter().filter(|x| x.starts_with("AUTH")).cloned().collect::<Vec<_>>();
                let select = l.iter().filter(|x| x.starts_with("SELECT")).cloned().collect::<Vec<_>>();
                let asked = l.iter().any(|x| x.to_ascii_uppercase().starts_with("SENTINEL"));
                out.push_str(&format!(
                    "{{\"via_urls\":{},\"with_info\":{},\"right_name\":{},\"got\":{},\"asked_sentinel\":{},\"auth\":{:?},\"select\":{:?}}}\n",
                    via_urls, with_info, right_name, got, asked, auth, select
                ));
            }
        }
    }
    out
}
