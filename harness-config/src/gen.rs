//! Case generators. A case is (cfg row, input rows) of integers; see enc.rs for the encoding.
use crate::enc::*;
use crate::rng::Rng;
use crate::srd::Tree;

pub fn strings() -> Vec<Vec<u8>> {
    let mut v: Vec<Vec<u8>> = [
        "", "a", "deadpool", "user name", "pässwörd", "日本語", "a\0b", "/tmp/sock", "/", "x'y\"z\\", "%41",
        "SELECT 1", "-c geqo=off", "ü", "\0", " ", "/var/run/postgresql",
    ]
    .iter()
    .map(|s| s.as_bytes().to_vec())
    .collect();
    v.push("long-".repeat(12).into_bytes());
    // longer than the 63 bytes some servers keep of a name; and one whose 63rd byte is inside a character
    v.push("name-".repeat(16).into_bytes());
    v.push(format!("{}日本語", "x".repeat(62)).into_bytes());
    v
}

fn pick<'a, T>(r: &mut Rng, v: &'a [T]) -> &'a T {
    &v[r.below(v.len() as u64) as usize]
}
fn ps<'a>(r: &mut Rng, v: &[&'a str]) -> &'a str {
    v[r.below(v.len() as u64) as usize]
}
fn p_str(r: &mut Rng) -> Vec<u8> {
    let s = strings();
    pick(r, &s).clone()
}
fn put_bytes(o: &mut Vec<Z>, s: &[u8]) {
    e_bytes(o, s)
}
fn put_ostr(o: &mut Vec<Z>, set: bool, s: &[u8]) {
    if set {
        o.push(1);
        put_bytes(o, s)
    } else {
        o.push(0)
    }
}

fn gen_secs(r: &mut Rng) -> u64 {
    match r.below(8) {
        0 => 0,
        1 => 1,
        2 => i64::MAX as u64,
        3 => i64::MAX as u64 + 1,
        4 => u64::MAX,
        5 => r.below(100_000),
        _ => r.next(),
    }
}
fn gen_nanos(r: &mut Rng) -> u64 {
    match r.below(5) {
        0 => 0,
        1 => 1,
        2 => 999_999_999,
        _ => r.below(1_000_000_000),
    }
}
fn put_dur(o: &mut Vec<Z>, r: &mut Rng, small: bool) {
    let s = if small { r.below(1 << 40) } else { gen_secs(r) };
    o.push(s as Z);
    o.push(gen_nanos(r) as Z);
}
fn put_odur(o: &mut Vec<Z>, r: &mut Rng, pct: u64, small: bool) {
    if r.chance(pct) {
        o.push(1);
        put_dur(o, r, small)
    } else {
        o.push(0)
    }
}
fn gen_max_size(r: &mut Rng) -> u64 {
    match r.below(8) {
        0 => 0,
        1 => 1,
        2 => 8,
        3 => u32::MAX as u64,
        4 => (1u64 << 53) + 1,
        5 => u64::MAX,
        6 => r.below(64),
        _ => r.next(),
    }
}
/// pool_cfg: max_size, 3 x option dur, queue mode. `timeouts_pct` = chance of each timeout
/// `buildable`: the value is handed to Pool::from_builder, which pre-allocates max_size slots
/// (a huge max_size aborts the process there), so it stays small
fn put_pool_b(o: &mut Vec<Z>, r: &mut Rng, timeouts_pct: u64, small: bool, buildable: bool) {
    let m = if buildable {
        *pick(r, &[0u64, 1, 2, 8, 64, 4096, 100, 7])
    } else if small {
        r.below(i64::MAX as u64)
    } else {
        gen_max_size(r)
    };
    o.push(m as Z);
    for _ in 0..3 {
        put_odur(o, r, timeouts_pct, small);
    }
    o.push(r.below(2) as Z);
}
fn put_pool(o: &mut Vec<Z>, r: &mut Rng, timeouts_pct: u64, small: bool) {
    put_pool_b(o, r, timeouts_pct, small, false)
}
fn put_opool(o: &mut Vec<Z>, r: &mut Rng, pct: u64, timeouts_pct: u64) {
    if r.chance(pct) {
        o.push(1);
        put_pool_b(o, r, timeouts_pct, false, true)
    } else {
        o.push(0)
    }
}

// ------------------------------------------------------------------ postgres
fn pg_url(r: &mut Rng) -> String {
    match r.weighted(&[60, 15, 25]) {
        0 => {
            let mut u = String::from(*pick(r, &["postgres://", "postgresql://"]));
            if r.chance(60) {
                u.push_str(ps(r, &["u", "user%20name", "p%C3%A4ss", "", "a%00b"]));
                if r.chance(50) {
                    u.push(':');
                    u.push_str(ps(r, &["pw", "p%40ss", "", "s%C3%A9cret"]));
                }
                u.push('@');
            }
            let nh = r.below(3);
            for i in 0..nh {
                if i > 0 {
                    u.push(',');
                }
                u.push_str(ps(r, &["localhost", "db.example.com", "10.0.0.1", "%2Fvar%2Frun%2Fpostgresql", "[::1]", "h%C3%B6st"]));
                if r.chance(50) {
                    u.push(':');
                    u.push_str(ps(r, &["5432", "5433", "1", "65535", ""]));
                }
            }
            if r.chance(70) {
                u.push('/');
                u.push_str(ps(r, &["db", "my%20db", "", "d%C3%A4t", "db"]));
            }
            let params: [(&str, &[&str]); 19] = [
                ("sslmode", &["disable", "prefer", "require"]),
                ("target_session_attrs", &["any", "read-write", "read-only"]),
                ("channel_binding", &["disable", "prefer", "require"]),
                ("load_balance_hosts", &["disable", "random"]),
                ("application_name", &["app", "my%20app", ""]),
                ("connect_timeout", &["0", "5", "-1", "86400"]),
                ("keepalives", &["0", "1"]),
                ("keepalives_idle", &["0", "30", "7200"]),
                ("options", &["-c%20x%3D1", ""]),
                ("host", &["/var/run/pg", "h2", "h3,h4", ""]),
                ("hostaddr", &["127.0.0.1", "::1", "10.1.1.1,10.1.1.2"]),
                ("port", &["5433", "1,2", ""]),
                ("user", &["qu", ""]),
                ("password", &["qp", ""]),
                ("dbname", &["qd", ""]),
                ("sslnegotiation", &["postgres", "direct"]),
                ("tcp_user_timeout", &["7", "0"]),
                ("keepalives_interval", &["3"]),
                ("keepalives_retries", &["4"]),
            ];
            let mut first = true;
            for (k, vs) in params.iter() {
                if r.chance(14) {
                    u.push(if first { '?' } else { '&' });
                    first = false;
                    u.push_str(k);
                    u.push('=');
                    if r.chance(8) {
                        u.push_str("bogus");
                    } else {
                        u.push_str(ps(r, vs));
                    }
                }
            }
            if r.chance(4) {
                u.push(if first { '?' } else { '&' });
                u.push_str("nokey=1");
            }
            u
        }
        1 => {
            let mut parts: Vec<String> = vec![];
            let kv: [(&str, &[&str]); 12] = [
                ("host", &["localhost", "/tmp", "a,b", "''"]),
                ("port", &["5432", "1,2", "abc"]),
                ("user", &["me", "'a b'", "''"]),
                ("password", &["pw", "'p w'"]),
                ("dbname", &["db", "''", "'my db'"]),
                ("sslmode", &["disable", "require", "x"]),
                ("target_session_attrs", &["read-write", "read-only", "any"]),
                ("channel_binding", &["require", "disable"]),
                ("load_balance_hosts", &["random"]),
                ("connect_timeout", &["3"]),
                ("keepalives_idle", &["60"]),
                ("hostaddr", &["127.0.0.1", "nope"]),
            ];
            for (k, vs) in kv.iter() {
                if r.chance(30) {
                    parts.push(format!("{}={}", k, pick(r, vs)));
                }
            }
            parts.join(" ")
        }
        _ => pick(
            r,
            &[
                "", " ", "postgres://", "postgres://[::1", "postgres://host:port/db", "postgres://u@h/db?sslmode=bogus",
                "postgres://u@h/db?nokey=1", "postgresql://%zz@h/db", "host='abc", "host=localhost port=abc", "abc://x",
                "dbname", "=x", "postgres://u:p@/db", "postgres:///db", "host=localhost dbname=db user=me", "dbname=''",
                "user='a b' dbname=x", "postgres://h/db?port=70000", "日本", "postgres://h/db?hostaddr=999.1.1.1",
                "postgres://h/%00", "postgres://u@h:5432,h2:5433/db?target_session_attrs=read-write",
                "postgres://h/db?connect_timeout=abc", "postgres://h/db?keepalives=2", "postgres://u@%2Ftmp/db",
            ],
        )
        .to_string(),
    }
}

fn put_ip(o: &mut Vec<Z>, r: &mut Rng) {
    if r.chance(60) {
        let b = [4u8, r.below(256) as u8, r.below(256) as u8, r.below(256) as u8, r.below(256) as u8];
        put_bytes(o, &b)
    } else {
        let mut b = vec![6u8];
        for _ in 0..16 {
            b.push(if r.chance(50) { 0 } else { r.below(256) as u8 });
        }
        put_bytes(o, &b)
    }
}

pub fn gen_pg(r: &mut Rng) -> (Vec<Z>, Vec<Vec<Z>>) {
    // 0 random subset | 1 one field only (plus a dbname) | 2 everything | 3 nothing | 4 url only
    let style = r.weighted(&[55, 20, 5, 3, 17]);
    let single = r.below(21);
    let dens = [15, 35, 60][r.below(3) as usize];
    let mut idx = 0u64;
    let mut on = |r: &mut Rng, must: bool| -> bool {
        let i = idx;
        idx += 1;
        match style {
            0 => must || r.chance(dens),
            1 => i == single || (i == 3 && r.chance(90)),
            2 => true,
            3 => false,
            _ => i == 0 || (i == 3 && r.chance(30)),
        }
    };
    let mut o = vec![];
    // url
    if on(r, false) {
        put_ostr(&mut o, true, pg_url(r).as_bytes())
    } else {
        o.push(0)
    }
    // user password dbname options application_name
    for k in 0..5 {
        let set = on(r, false);
        let s = if (k == 0 || k == 2) && r.chance(25) { vec![] } else { p_str(r) };
        put_ostr(&mut o, set, &s);
    }
    // ssl_mode
    if on(r, false) {
        o.extend([1, r.below(3) as Z])
    } else {
        o.push(0)
    }
    // host
    let set = on(r, false);
    let s = p_str(r);
    put_ostr(&mut o, set, &s);
    // hosts
    if on(r, false) {
        o.push(1);
        let n = r.below(4);
        o.push(n as Z);
        for _ in 0..n {
            let s = p_str(r);
            put_bytes(&mut o, &s);
        }
    } else {
        o.push(0)
    }
    // hostaddr
    if on(r, false) {
        o.push(1);
        put_ip(&mut o, r)
    } else {
        o.push(0)
    }
    // hostaddrs
    if on(r, false) {
        o.push(1);
        let n = r.below(4);
        o.push(n as Z);
        for _ in 0..n {
            put_ip(&mut o, r);
        }
    } else {
        o.push(0)
    }
    // port
    if on(r, false) {
        o.extend([1, *pick(r, &[0, 1, 5432, 5433, 65535]) as Z])
    } else {
        o.push(0)
    }
    // ports
    if on(r, false) {
        o.push(1);
        let n = r.below(4);
        o.push(n as Z);
        for _ in 0..n {
            o.push(r.below(65536) as Z);
        }
    } else {
        o.push(0)
    }
    // connect_timeout
    if on(r, false) {
        o.push(1);
        put_dur(&mut o, r, false)
    } else {
        o.push(0)
    }
    // keepalives
    if on(r, false) {
        o.extend([1, r.below(2) as Z])
    } else {
        o.push(0)
    }
    // keepalives_idle
    if on(r, false) {
        o.push(1);
        put_dur(&mut o, r, false)
    } else {
        o.push(0)
    }
    // target_session_attrs channel_binding load_balance_hosts
    for n in [2u64, 3, 2] {
        if on(r, false) {
            o.extend([1, r.below(n) as Z])
        } else {
            o.push(0)
        }
    }
    // manager
    if on(r, false) {
        o.push(1);
        let code = r.below(4);
        o.push(code as Z);
        let s = if code == 3 { p_str(r) } else { vec![] };
        put_bytes(&mut o, &s);
    } else {
        o.push(0)
    }
    // pool
    if on(r, false) {
        o.push(1);
        put_pool_b(&mut o, r, 30, false, true)
    } else {
        o.push(0)
    }
    // $USER
    let mut e = vec![];
    match r.below(6) {
        0 => e.push(0),
        1 => put_ostr(&mut e, true, b""),
        2 => put_ostr(&mut e, true, "üser".as_bytes()),
        3 => put_ostr(&mut e, true, &[0xff, 0xfe, b'x']),
        _ => put_ostr(&mut e, true, b"envuser"),
    }
    (vec![1, 1, 0, r.below(2) as Z], vec![o, e])
}

// ------------------------------------------------------------------ redis
const REDIS_URLS: &[&str] = &[
    "redis://127.0.0.1/", "redis://127.0.0.1:6380/2", "redis://:pw@localhost/", "redis://user:pw@host:7000/0?protocol=resp3",
    "redis+unix:///tmp/redis.sock", "unix:///tmp/redis.sock?db=3&pass=p&user=u", "rediss://host/", "", "redis://", "http://x/",
    "redis://host:notaport/", "redis://host/notadb", "redis://[::1", "redis://host/99999999999999999999",
    "redis://us%20er:p%40ss@h/1", "valkey://h/", "redis://h/?protocol=resp9", "日本", "redis://h:6379", "redis://[::1]:7001/3",
    "redis://h/?protocol=resp2", "redis://%zz@h/",
];

fn put_dredis(o: &mut Vec<Z>, r: &mut Rng, plain: bool) {
    let db: i64 = if plain {
        0
    } else {
        match r.below(7) {
            0 => 0,
            1 => 1,
            2 => -1,
            3 => 15,
            4 => i64::MAX,
            5 => i64::MIN,
            _ => r.next() as i64,
        }
    };
    o.push(db as Z);
    for _ in 0..2 {
        let set = !plain && r.chance(50);
        let s = p_str(r);
        put_ostr(o, set, &s);
    }
    o.push(if plain { 0 } else { r.below(2) as Z });
}
fn put_daddr(o: &mut Vec<Z>, r: &mut Rng, tcp_only: bool) {
    let hosts: [&[u8]; 6] = [b"127.0.0.1", b"localhost", b"", b"h\0x", "ホスト".as_bytes(), b"redis.example.com"];
    let port = *pick(r, &[0u64, 1, 6379, 65535, 7000, 26379]);
    let k = if tcp_only { 0 } else { r.weighted(&[50, 25, 25]) };
    match k {
        0 => {
            o.push(0);
            { let h: &[u8] = *pick(r, &hosts); put_bytes(o, h); }
            o.push(port as Z);
        }
        1 => {
            o.push(1);
            { let h: &[u8] = *pick(r, &hosts); put_bytes(o, h); }
            o.push(port as Z);
            o.push(r.below(2) as Z);
        }
        _ => {
            o.push(2);
            let s = p_str(r);
            put_bytes(o, &s);
        }
    }
}
fn put_dinfo(o: &mut Vec<Z>, r: &mut Rng, uniform: bool) {
    put_daddr(o, r, uniform);
    put_dredis(o, r, uniform);
}
fn put_raddr(o: &mut Vec<Z>, r: &mut Rng) {
    let mut t = vec![];
    put_daddr(&mut t, r, false);
    if t[0] == 1 {
        t.push(0); // tls_params: cannot be constructed without the TLS feature
    }
    o.extend(t);
}
fn put_dnode(o: &mut Vec<Z>, r: &mut Rng) {
    if r.chance(50) {
        o.extend([1, r.below(2) as Z])
    } else {
        o.push(0)
    }
    if r.chance(60) {
        o.push(1);
        put_dredis(o, r, false)
    } else {
        o.push(0)
    }
}

fn put_urls(o: &mut Vec<Z>, r: &mut Rng, plain: bool) {
    if plain {
        put_bytes(o, pick(r, REDIS_URLS).as_bytes());
    } else {
        // three shapes: all well-formed / all well-formed but one (the single malformed entry must still
        // be reported, also when it is empty or the last one) / anything
        let mode = r.weighted(&[40, 30, 30]);
        let n = if mode == 1 { 2 + r.below(2) } else { r.below(4) };
        o.push(n as Z);
        let odd_one = r.below(n.max(1));
        for i in 0..n {
            let u = match mode {
                0 => *pick(r, &REDIS_URLS[..3]),
                1 if i == odd_one => *pick(r, &["", "redis://", "http://x/", "redis://host:notaport/"]),
                1 => *pick(r, &REDIS_URLS[..3]),
                _ => *pick(r, REDIS_URLS),
            };
            put_bytes(o, u.as_bytes());
        }
    }
}

/// kind 2 plain | 3 cluster | 4 sentinel
pub fn gen_redis(r: &mut Rng) -> (Vec<Z>, Vec<Vec<Z>>) {
    let kind = 2 + r.below(3) as Z;
    // which of (urls, connections) are set: neither / urls / connections / both
    let arm = r.weighted(&[15, 35, 35, 15]);
    let (has_u, has_c) = (arm == 1 || arm == 3, arm == 2 || arm == 3);
    let mut o = vec![];
    if has_u {
        o.push(1);
        put_urls(&mut o, r, kind == 2)
    } else {
        o.push(0)
    }
    if kind == 4 {
        o.push(r.below(2) as Z);
        let s = if r.chance(50) { b"mymaster".to_vec() } else { p_str(r) };
        put_bytes(&mut o, &s);
    }
    if has_c {
        o.push(1);
        if kind == 2 {
            put_dinfo(&mut o, r, false)
        } else {
            let n = r.below(4);
            let uniform = r.chance(50);
            o.push(n as Z);
            for _ in 0..n {
                put_dinfo(&mut o, r, uniform);
            }
        }
    } else {
        o.push(0)
    }
    if kind == 4 {
        if r.chance(50) {
            o.push(1);
            put_dnode(&mut o, r)
        } else {
            o.push(0)
        }
    }
    put_opool(&mut o, r, 50, 30);
    if kind == 3 {
        o.push(r.below(2) as Z);
    }
    (vec![kind, 0, r.below(2) as Z, 0], vec![o])
}

/// contact cases: TCP servers on the loopback listeners (symbolic ports 1..3, "@@k" in URLs)
pub fn gen_contact(r: &mut Rng) -> (Vec<Z>, Vec<Vec<Z>>) {
    let kind = 2 + r.below(3) as Z;
    let arm = r.weighted(&[20, 40, 40]);
    let (has_u, has_c) = (arm == 1, arm == 2);
    let n = if kind == 2 { 1 } else { 1 + r.below(3) };
    let mut ks: Vec<u64> = vec![1, 2, 3];
    // a random selection of n distinct listeners
    for i in 0..3usize {
        let j = i + r.below(3 - i as u64) as usize;
        ks.swap(i, j);
    }
    let ks = &ks[..n as usize];
    let mut o = vec![];
    if has_u {
        o.push(1);
        if kind != 2 {
            o.push(n as Z);
        }
        for k in ks {
            let u = if kind == 2 && r.chance(40) { format!("redis://127.0.0.1:@@{}/3", k) } else { format!("redis://127.0.0.1:@@{}/", k) };
            put_bytes(&mut o, u.as_bytes());
        }
    } else {
        o.push(0)
    }
    if kind == 4 {
        o.push(r.below(2) as Z);
        put_bytes(&mut o, b"mymaster");
    }
    if has_c {
        o.push(1);
        if kind != 2 {
            o.push(n as Z);
        }
        for k in ks {
            o.push(0);
            put_bytes(&mut o, b"127.0.0.1");
            o.push(*k as Z);
            put_dredis(&mut o, r, true);
        }
    } else {
        o.push(0)
    }
    if kind == 4 {
        o.push(0);
    }
    // a pool that can hand out an object (max_size >= 1), no timeouts
    if r.chance(40) {
        o.extend([1, *pick(r, &[1, 2, 8]) as Z, 0, 0, 0, r.below(2) as Z]);
    } else {
        o.push(0);
    }
    if kind == 3 {
        o.push(r.below(2) as Z);
    }
    (vec![kind, 0, 1, 1], vec![o])
}

pub fn gen_conv(r: &mut Rng) -> (Vec<Z>, Vec<Vec<Z>>) {
    let mut di = vec![];
    put_dinfo(&mut di, r, false);
    let mut ri = vec![];
    put_raddr(&mut ri, r);
    put_dredis(&mut ri, r, false);
    let mut dn = vec![];
    put_dnode(&mut dn, r);
    let mut rn = vec![];
    put_dnode(&mut rn, r);
    let misc = vec![r.below(2) as Z, r.below(2) as Z, r.below(2) as Z, r.below(2) as Z];
    (vec![5], vec![di, ri, dn, rn, misc])
}

// ------------------------------------------------------------------ serde
fn tree_dur(c: &mut Cur) -> Tree {
    let s = c.int();
    let n = c.int();
    Tree::Map(vec![(b"secs".to_vec(), Tree::Num(s)), (b"nanos".to_vec(), Tree::Num(n))])
}
fn tree_odur(c: &mut Cur) -> Tree {
    if c.int() == 0 {
        Tree::Null
    } else {
        tree_dur(c)
    }
}
fn tree_timeouts(c: &mut Cur) -> Tree {
    let w = tree_odur(c);
    let cr = tree_odur(c);
    let re = tree_odur(c);
    Tree::Map(vec![(b"wait".to_vec(), w), (b"create".to_vec(), cr), (b"recycle".to_vec(), re)])
}
fn tree_qm(c: &mut Cur) -> Tree {
    Tree::Str(if c.int() == 0 { b"Fifo".to_vec() } else { b"Lifo".to_vec() })
}
fn tree_pool(c: &mut Cur) -> Tree {
    let m = c.int();
    let t = tree_timeouts(c);
    let q = tree_qm(c);
    Tree::Map(vec![(b"max_size".to_vec(), Tree::Num(m)), (b"timeouts".to_vec(), t), (b"queue_mode".to_vec(), q)])
}

fn paths(t: &Tree, here: &mut Vec<usize>, leaves: &mut Vec<Vec<usize>>, maps: &mut Vec<Vec<usize>>) {
    match t {
        Tree::Map(m) => {
            maps.push(here.clone());
            for (i, (_, v)) in m.iter().enumerate() {
                here.push(i);
                paths(v, here, leaves, maps);
                here.pop();
            }
        }
        _ => leaves.push(here.clone()),
    }
}
fn at<'a>(t: &'a mut Tree, p: &[usize]) -> &'a mut Tree {
    let mut cur = t;
    for i in p {
        cur = match cur {
            Tree::Map(m) => &mut m[*i].1,
            _ => unreachable!(),
        };
    }
    cur
}
fn stringify(t: &mut Tree) {
    match t {
        Tree::Num(z) => *t = Tree::Str(z.to_string().into_bytes()),
        Tree::Map(m) => {
            for (_, v) in m.iter_mut() {
                stringify(v)
            }
        }
        _ => {}
    }
}
fn strip_nulls(t: &mut Tree) {
    if let Tree::Map(m) = t {
        m.retain(|(_, v)| !matches!(v, Tree::Null));
        for (_, v) in m.iter_mut() {
            strip_nulls(v)
        }
    }
}

fn mutate(r: &mut Rng, t: &mut Tree) {
    let (mut leaves, mut maps) = (vec![], vec![]);
    paths(t, &mut vec![], &mut leaves, &mut maps);
    match r.weighted(&[30, 12, 38, 8, 6, 6]) {
        0 | 1 if maps.is_empty() => {}
        0 => {
            // drop a key
            let cands: Vec<&Vec<usize>> = maps.iter().collect();
            let p = (*pick(r, &cands)).clone();
            if let Tree::Map(m) = at(t, &p) {
                if !m.is_empty() {
                    let i = r.below(m.len() as u64) as usize;
                    m.remove(i);
                }
            }
        }
        1 => {
            // an unknown key
            let p = pick(r, &maps).clone();
            if let Tree::Map(m) = at(t, &p) {
                m.push((b"extra".to_vec(), Tree::Num(1)));
            }
        }
        2 => {
            // another leaf
            if leaves.is_empty() {
                return;
            }
            let p = pick(r, &leaves).clone();
            let strs: [&str; 17] = [
                "5", "+5", "007", "true", "off", "abc", "", " 5", "18446744073709551616", "18446744073709551615", "fifo",
                "LIFO", "Fifo", "YES", "-1", "4294967296", "999999999",
            ];
            let nums: [Z; 9] = [-1, 0, 1 << 64, 1 << 32, (1 << 32) - 1, 1_000_000_000, u64::MAX as Z, 2_500_000_000, 999_999_999];
            *at(t, &p) = match r.below(5) {
                0 => Tree::Null,
                1 => Tree::Bool(r.below(2) == 1),
                2 => Tree::Num(*pick(r, &nums)),
                3 => Tree::Str(pick(r, &strs).as_bytes().to_vec()),
                _ => Tree::Map(vec![]),
            };
        }
        3 => {
            // a unit variant in its externally tagged form
            if leaves.is_empty() {
                return;
            }
            let p = pick(r, &leaves).clone();
            let k = *pick(r, &["Fifo", "Lifo", "lifo", "Other"]);
            let v = if r.chance(60) { Tree::Null } else { Tree::Num(1) };
            *at(t, &p) = Tree::Map(vec![(k.as_bytes().to_vec(), v)]);
        }
        4 => stringify(t),
        _ => strip_nulls(t),
    }
}

pub fn gen_serde(r: &mut Rng) -> (Vec<Z>, Vec<Vec<Z>>) {
    let what = r.weighted(&[60, 25, 15]) as Z;
    // 0: typed ser, read back | 1: environment, read back | 2: environment with try_parsing |
    // 3: a tree of its own
    let style = if what == 2 { r.weighted(&[25, 25, 8, 42]) } else { r.weighted(&[20, 20, 8, 37, 15]) };
    let small = style == 2;
    let mut v = vec![];
    match what {
        0 => put_pool(&mut v, r, 50, small),
        1 => {
            for _ in 0..3 {
                put_odur(&mut v, r, 50, small);
            }
        }
        _ => v.push(r.below(2) as Z),
    }
    match style {
        0 => (vec![6, r.below(2) as Z, what, 0, 0], vec![v, vec![]]),
        1 => (vec![6, 1, what, 1, 0], vec![v, vec![]]),
        2 => (vec![6, 1, what, 1, 2], vec![v, vec![]]),
        4 => {
            let mask = if what == 0 { 1 + r.below(3) } else { 1 + r.below(7) };
            (vec![6, r.below(2) as Z, what, 0, 3, mask as Z], vec![v, vec![]])
        }
        _ => {
            let mut c = Cur::new(&v);
            let mut t = match what {
                0 => tree_pool(&mut c),
                1 => tree_timeouts(&mut c),
                _ => tree_qm(&mut c),
            };
            let n = 1 + r.below(3);
            for _ in 0..n {
                mutate(r, &mut t);
            }
            let mut row = vec![];
            crate::srd::e_tree(&mut row, &t);
            (vec![6, r.below(2) as Z, what, 0, 1], vec![v, row])
        }
    }
}
