//! Postgres cases: deadpool_postgres::Config through the real get_pg_config / builder /
//! create_pool, results dumped through the getters of tokio_postgres::Config.
use crate::enc::*;
use deadpool_postgres::{
    ChannelBinding, Config, ConfigError, CreatePoolError, LoadBalanceHosts, ManagerConfig,
    RecyclingMethod, Runtime, SslMode, TargetSessionAttrs,
};
use std::ffi::OsStr;
use std::net::{IpAddr, Ipv4Addr, Ipv6Addr};
use std::os::unix::ffi::OsStrExt;
use std::panic::{catch_unwind, AssertUnwindSafe};
use std::str::FromStr;
use tokio_postgres::config as pgc;
use tokio_postgres::NoTls;

pub fn d_ip(b: &[u8]) -> IpAddr {
    if b.first() == Some(&4) && b.len() == 5 {
        IpAddr::V4(Ipv4Addr::new(b[1], b[2], b[3], b[4]))
    } else {
        let mut o = [0u8; 16];
        for (i, x) in b.iter().skip(1).take(16).enumerate() {
            o[i] = *x;
        }
        IpAddr::V6(Ipv6Addr::from(o))
    }
}

pub fn e_ip(ip: &IpAddr) -> Vec<u8> {
    match ip {
        IpAddr::V4(a) => {
            let mut v = vec![4u8];
            v.extend(a.octets());
            v
        }
        IpAddr::V6(a) => {
            let mut v = vec![6u8];
            v.extend(a.octets());
            v
        }
    }
}

/// row 0 -> deadpool_postgres::Config (fields are assigned one by one on top of Default, so
/// a field added to the struct does not break the build: the inventory check reports it)
pub fn d_pg_cfg(row: &[Z]) -> Config {
    let mut c = Cur::new(row);
    let mut cfg = Config::default();
    cfg.url = c.opt(|c| c.string());
    cfg.user = c.opt(|c| c.string());
    cfg.password = c.opt(|c| c.string());
    cfg.dbname = c.opt(|c| c.string());
    cfg.options = c.opt(|c| c.string());
    cfg.application_name = c.opt(|c| c.string());
    cfg.ssl_mode = c.opt(|c| match c.int() {
        0 => SslMode::Disable,
        1 => SslMode::Prefer,
        _ => SslMode::Require,
    });
    cfg.host = c.opt(|c| c.string());
    cfg.hosts = c.opt(|c| c.list(|c| c.string()));
    cfg.hostaddr = c.opt(|c| d_ip(&c.bytes()));
    cfg.hostaddrs = c.opt(|c| c.list(|c| d_ip(&c.bytes())));
    cfg.port = c.opt(|c| c.int() as u16);
    cfg.ports = c.opt(|c| c.list(|c| c.int() as u16));
    cfg.connect_timeout = c.opt(|c| c.dur());
    cfg.keepalives = c.opt(|c| c.boolean());
    cfg.keepalives_idle = c.opt(|c| c.dur());
    cfg.target_session_attrs = c.opt(|c| match c.int() {
        0 => TargetSessionAttrs::Any,
        _ => TargetSessionAttrs::ReadWrite,
    });
    cfg.channel_binding = c.opt(|c| match c.int() {
        0 => ChannelBinding::Disable,
        1 => ChannelBinding::Prefer,
        _ => ChannelBinding::Require,
    });
    cfg.load_balance_hosts = c.opt(|c| match c.int() {
        0 => LoadBalanceHosts::Disable,
        _ => LoadBalanceHosts::Random,
    });
    cfg.manager = c.opt(|c| {
        let code = c.int();
        let s = c.string();
        let mut m = ManagerConfig::default();
        m.recycling_method = match code {
            0 => RecyclingMethod::Fast,
            1 => RecyclingMethod::Verified,
            2 => RecyclingMethod::Clean,
            _ => RecyclingMethod::Custom(s),
        };
        m
    });
    cfg.pool = c.opt(|c| d_pool(c));
    cfg
}

/// a tokio_postgres::Config as its getters show it
pub fn e_pg_obs(o: &mut Vec<Z>, c: &tokio_postgres::Config) {
    e_ostr(o, c.get_user().map(|s| s.as_bytes()));
    e_ostr(o, c.get_password());
    e_ostr(o, c.get_dbname().map(|s| s.as_bytes()));
    e_ostr(o, c.get_options().map(|s| s.as_bytes()));
    e_ostr(o, c.get_application_name().map(|s| s.as_bytes()));
    o.push(match c.get_ssl_mode() {
        pgc::SslMode::Disable => 0,
        pgc::SslMode::Prefer => 1,
        pgc::SslMode::Require => 2,
        _ => 99,
    });
    let hosts = c.get_hosts();
    o.push(hosts.len() as Z);
    for h in hosts {
        match h {
            pgc::Host::Tcp(s) => {
                o.push(0);
                e_bytes(o, s.as_bytes());
            }
            pgc::Host::Unix(p) => {
                o.push(1);
                e_bytes(o, p.as_os_str().as_bytes());
            }
        }
    }
    let addrs = c.get_hostaddrs();
    o.push(addrs.len() as Z);
    for a in addrs {
        e_bytes(o, &e_ip(a));
    }
    let ports = c.get_ports();
    o.push(ports.len() as Z);
    o.extend(ports.iter().map(|p| *p as Z));
    e_odur(o, c.get_connect_timeout());
    o.push(c.get_keepalives() as Z);
    e_dur(o, &c.get_keepalives_idle());
    o.push(match c.get_target_session_attrs() {
        pgc::TargetSessionAttrs::Any => 0,
        pgc::TargetSessionAttrs::ReadWrite => 1,
        pgc::TargetSessionAttrs::ReadOnly => 2,
        _ => 99,
    });
    o.push(match c.get_channel_binding() {
        pgc::ChannelBinding::Disable => 0,
        pgc::ChannelBinding::Prefer => 1,
        pgc::ChannelBinding::Require => 2,
        _ => 99,
    });
    o.push(match c.get_load_balance_hosts() {
        pgc::LoadBalanceHosts::Disable => 0,
        pgc::LoadBalanceHosts::Random => 1,
        _ => 99,
    });
    o.push(match c.get_ssl_negotiation() {
        pgc::SslNegotiation::Postgres => 0,
        pgc::SslNegotiation::Direct => 1,
        _ => 99,
    });
    e_odur(o, c.get_tcp_user_timeout());
    e_odur(o, c.get_keepalives_interval().as_ref());
    match c.get_keepalives_retries() {
        None => o.push(0),
        Some(r) => {
            o.push(1);
            o.push(r as Z)
        }
    }
}

fn err_code(e: &ConfigError) -> Z {
    match e {
        ConfigError::InvalidUrl(_) => 1,
        ConfigError::DbnameMissing => 2,
        ConfigError::DbnameEmpty => 3,
    }
}

/// the recycling method as the Debug rendering of the builder shows it (ManagerConfig has
/// no getter on Manager): matched against the renderings of every candidate value
fn manager_from_debug(dbg: &str, pool: &[Vec<u8>]) -> (Z, Vec<u8>) {
    let start = match dbg.find("recycling_method: ") {
        Some(i) => i + "recycling_method: ".len(),
        None => return (99, vec![]),
    };
    let rest = &dbg[start..];
    let end = match rest.find(" }, pg_config: Config {") {
        Some(i) => i,
        None => return (99, vec![]),
    };
    let txt = &rest[..end];
    for (code, m) in [
        (0, RecyclingMethod::Fast),
        (1, RecyclingMethod::Verified),
        (2, RecyclingMethod::Clean),
    ] {
        if format!("{:?}", m) == txt {
            return (code, vec![]);
        }
    }
    for s in pool {
        if let Ok(st) = std::str::from_utf8(s) {
            if format!("{:?}", RecyclingMethod::Custom(st.to_string())) == txt {
                return (3, s.clone());
            }
        }
    }
    (98, vec![])
}

/// cfg = [1, unix, dflt_max, runtime]; rows in: 0 Config, 1 what to put into $USER
/// (0 unset | 1 bytes). Rows out: 0, 1 as given; 2 env::var("USER").ok(); 3 Config::new();
/// 4 Config::from_str(url) (0 = rejected or no url).
pub fn run(cfg: &[Z], rows: &[Vec<Z>], strings: &[Vec<u8>]) -> (Vec<Z>, Vec<Vec<Z>>, Vec<Vec<Z>>) {
    let c = d_pg_cfg(&rows[0]);
    let want_rt = cfg.get(3).copied().unwrap_or(0) != 0;
    // environment
    {
        let mut cur = Cur::new(&rows[1]);
        match cur.opt(|c| c.bytes()) {
            None => std::env::remove_var("USER"),
            Some(b) => std::env::set_var("USER", OsStr::from_bytes(&b)),
        }
    }
    let mut labels = vec![rows[0].clone(), rows[1].clone()];
    let mut r2 = vec![];
    e_ostr(&mut r2, std::env::var("USER").ok().as_ref().map(|s| s.as_bytes()));
    labels.push(r2);
    let mut r3 = vec![];
    e_pg_obs(&mut r3, &tokio_postgres::Config::new());
    labels.push(r3);
    let mut r4 = vec![];
    match &c.url {
        None => r4.push(0),
        Some(u) => match catch_unwind(AssertUnwindSafe(|| tokio_postgres::Config::from_str(u))) {
            Ok(Ok(pc)) => {
                r4.push(1);
                e_pg_obs(&mut r4, &pc)
            }
            _ => r4.push(0),
        },
    }
    labels.push(r4);
    let dflt = deadpool::managed::PoolConfig::default().max_size;
    let cfg_out = vec![1, cfg!(unix) as Z, dflt as Z, want_rt as Z];

    // ---- the functions under test
    let mut obs = vec![];
    let mut o0 = vec![];
    match catch_unwind(AssertUnwindSafe(|| c.get_pg_config())) {
        Ok(Ok(pc)) => {
            o0.push(0);
            e_pg_obs(&mut o0, &pc)
        }
        Ok(Err(e)) => o0.push(err_code(&e)),
        Err(_) => o0.push(9),
    }
    obs.push(o0);
    let mut o1 = vec![];
    match catch_unwind(AssertUnwindSafe(|| c.builder(NoTls))) {
        Ok(Ok(b)) => {
            let dbg = format!("{:?}", b);
            let (mcode, mstr) = manager_from_debug(&dbg, strings);
            let qm = qm_from_debug(&dbg);
            match catch_unwind(AssertUnwindSafe(|| b.runtime(Runtime::Tokio1).build())) {
                Ok(Ok(pool)) => {
                    o1.push(0);
                    o1.push(mcode);
                    e_bytes(&mut o1, &mstr);
                    e_pool(&mut o1, pool.status().max_size, &pool.timeouts(), qm);
                }
                Ok(Err(_)) => o1.push(8),
                Err(_) => o1.push(9),
            }
        }
        Ok(Err(e)) => o1.push(err_code(&e)),
        Err(_) => o1.push(9),
    }
    obs.push(o1);
    let mut o2 = vec![];
    let rt = if want_rt { Some(Runtime::Tokio1) } else { None };
    match catch_unwind(AssertUnwindSafe(|| c.create_pool(rt, NoTls))) {
        Ok(Ok(pool)) => {
            o2.push(0);
            let qm = qm_from_debug(&format!("{:?}", pool));
            e_pool(&mut o2, pool.status().max_size, &pool.timeouts(), qm);
        }
        Ok(Err(CreatePoolError::Config(e))) => {
            o2.push(1);
            o2.push(err_code(&e))
        }
        Ok(Err(CreatePoolError::Build(_))) => o2.push(2),
        Err(_) => o2.push(9),
    }
    obs.push(o2);
    (cfg_out, labels, obs)
}
