//! Serde cases: PoolConfig / Timeouts / QueueMode through serde_json (typed) and through
//! the config crate (string-typed environment source, lenient reader).
use crate::enc::*;
use deadpool::managed::{PoolConfig, QueueMode, Timeouts};
use std::collections::HashMap;
use std::panic::{catch_unwind, AssertUnwindSafe};

#[derive(Clone, Debug)]
pub enum Tree {
    Null,
    Bool(bool),
    Num(Z),
    Str(Vec<u8>),
    Map(Vec<(Vec<u8>, Tree)>),
    Other, // float / array: outside the tree language
}

pub fn d_tree(c: &mut Cur, fuel: usize) -> Tree {
    if fuel == 0 {
        return Tree::Null;
    }
    match c.int() {
        0 => Tree::Null,
        1 => Tree::Bool(c.boolean()),
        2 => Tree::Num(c.int()),
        3 => Tree::Str(c.bytes()),
        _ => {
            let n = c.int().max(0) as usize;
            let mut m = vec![];
            for _ in 0..n {
                let k = c.bytes();
                let v = d_tree(c, fuel - 1);
                m.push((k, v));
            }
            Tree::Map(m)
        }
    }
}

/// keys are emitted in sorted order (serde_json's and config's maps have no stable order of
/// their own that matters)
pub fn e_tree(o: &mut Vec<Z>, t: &Tree) {
    match t {
        Tree::Null => o.push(0),
        Tree::Bool(b) => o.extend([1, *b as Z]),
        Tree::Num(z) => o.extend([2, *z]),
        Tree::Str(s) => {
            o.push(3);
            e_bytes(o, s)
        }
        Tree::Map(m) => {
            let mut m2: Vec<&(Vec<u8>, Tree)> = m.iter().collect();
            m2.sort_by(|a, b| a.0.cmp(&b.0));
            o.push(4);
            o.push(m2.len() as Z);
            for (k, v) in m2 {
                e_bytes(o, k);
                e_tree(o, v);
            }
        }
        Tree::Other => o.push(5),
    }
}

fn has_other(t: &Tree) -> bool {
    match t {
        Tree::Other => true,
        Tree::Map(m) => m.iter().any(|(_, v)| has_other(v)),
        _ => false,
    }
}

fn from_json(v: &serde_json::Value) -> Tree {
    match v {
        serde_json::Value::Null => Tree::Null,
        serde_json::Value::Bool(b) => Tree::Bool(*b),
        serde_json::Value::Number(n) => {
            if let Some(u) = n.as_u64() {
                Tree::Num(u as Z)
            } else if let Some(i) = n.as_i64() {
                Tree::Num(i as Z)
            } else {
                Tree::Other
            }
        }
        serde_json::Value::String(s) => Tree::Str(s.as_bytes().to_vec()),
        serde_json::Value::Array(_) => Tree::Other,
        serde_json::Value::Object(m) => Tree::Map(m.iter().map(|(k, v)| (k.as_bytes().to_vec(), from_json(v))).collect()),
    }
}

fn to_json(t: &Tree) -> serde_json::Value {
    match t {
        Tree::Null | Tree::Other => serde_json::Value::Null,
        Tree::Bool(b) => serde_json::Value::Bool(*b),
        Tree::Num(z) => {
            if *z > u64::MAX as Z {
                // serde_json reads such a literal as a float
                serde_json::Number::from_f64(*z as f64).map(serde_json::Value::Number).unwrap_or(serde_json::Value::Null)
            } else if *z >= 0 {
                serde_json::Value::Number((*z as u64).into())
            } else {
                serde_json::Value::Number((*z as i64).into())
            }
        }
        Tree::Str(s) => serde_json::Value::String(String::from_utf8_lossy(s).into_owned()),
        Tree::Map(m) => serde_json::Value::Object(
            m.iter().map(|(k, v)| (String::from_utf8_lossy(k).into_owned(), to_json(v))).collect(),
        ),
    }
}

fn from_config(v: &config::Value) -> Tree {
    use config::ValueKind as K;
    match &v.kind {
        K::Nil => Tree::Null,
        K::Boolean(b) => Tree::Bool(*b),
        K::I64(i) => Tree::Num(*i as Z),
        K::I128(i) => Tree::Num(*i),
        K::U64(u) => Tree::Num(*u as Z),
        K::U128(u) => Tree::Num(*u as Z),
        K::Float(_) => Tree::Other,
        K::String(s) => Tree::Str(s.as_bytes().to_vec()),
        K::Table(t) => Tree::Map(t.iter().map(|(k, v)| (k.as_bytes().to_vec(), from_config(v))).collect()),
        K::Array(_) => Tree::Other,
    }
}

fn to_config(t: &Tree) -> config::Value {
    use config::ValueKind as K;
    let kind = match t {
        Tree::Null | Tree::Other => K::Nil,
        Tree::Bool(b) => K::Boolean(*b),
        Tree::Num(z) => {
            if *z >= i64::MIN as Z && *z <= i64::MAX as Z {
                K::I64(*z as i64)
            } else if *z >= 0 && *z <= u64::MAX as Z {
                K::U64(*z as u64)
            } else if *z >= 0 {
                K::U128(*z as u128)
            } else {
                K::I128(*z)
            }
        }
        Tree::Str(s) => K::String(String::from_utf8_lossy(s).into_owned()),
        Tree::Map(m) => {
            let mut tb: HashMap<String, config::Value> = HashMap::new();
            for (k, v) in m {
                tb.insert(String::from_utf8_lossy(k).into_owned(), to_config(v));
            }
            K::Table(tb.into_iter().collect())
        }
    };
    config::Value::new(None, kind)
}

fn e_val_pool(o: &mut Vec<Z>, p: &PoolConfig) {
    e_pool(o, p.max_size, &p.timeouts, qm_code(&p.queue_mode));
}
fn e_val_timeouts(o: &mut Vec<Z>, t: &Timeouts) {
    e_odur(o, t.wait.as_ref());
    e_odur(o, t.create.as_ref());
    e_odur(o, t.recycle.as_ref());
}

/// the environment one writes for a value: only what is set, decimal numerals
fn env_for_timeouts(prefix: &str, t: &Timeouts, m: &mut HashMap<String, String>) {
    for (name, d) in [("WAIT", t.wait), ("CREATE", t.create), ("RECYCLE", t.recycle)] {
        if let Some(d) = d {
            m.insert(format!("{}{}__SECS", prefix, name), d.as_secs().to_string());
            m.insert(format!("{}{}__NANOS", prefix, name), d.subsec_nanos().to_string());
        }
    }
}

fn env_config(m: HashMap<String, String>, try_parsing: bool) -> Result<config::Config, config::ConfigError> {
    config::Config::builder()
        .add_source(config::Environment::default().separator("__").try_parsing(try_parsing).source(Some(m.into_iter().collect())))
        .build()
}

/// cfg = [6, reader (0 typed | 1 lenient), what (0 PoolConfig | 1 Timeouts | 2 QueueMode),
///        serialisation (0 typed | 1 environment), src (0 tree = what the serialisation
///        produced | 1 tree given in row 1 | 2 environment read with try_parsing |
///        3 what the serialisation produced minus the sections named by cfg[5])]
/// rows in: 0 the value, 1 the tree (src = 1). Observations: 0 the serialised tree,
/// 1 the deserialised value (0 | 1 value), 2 [JSON text round trip reproduces the value].
pub fn run(cfg: &[Z], rows: &[Vec<Z>]) -> Result<(Vec<Z>, Vec<Vec<Z>>, Vec<Vec<Z>>), String> {
    let lenient = cfg[1] != 0;
    let what = cfg[2];
    let env = cfg[3] != 0;
    let src = cfg[4];
    let mut vc = Cur::new(&rows[0]);
    let pool_v;
    let timeouts_v;
    let qm_v;
    match what {
        0 => {
            pool_v = d_pool(&mut vc);
            timeouts_v = pool_v.timeouts;
            qm_v = pool_v.queue_mode;
        }
        1 => {
            timeouts_v = d_timeouts(&mut vc);
            pool_v = PoolConfig::new(0);
            qm_v = QueueMode::Fifo;
        }
        _ => {
            qm_v = d_qm(vc.int());
            pool_v = PoolConfig::new(0);
            timeouts_v = Timeouts::default();
        }
    }
    // ---- serialise
    let ser_tree: Tree;
    let mut text_ok: Z = 1;
    if !env {
        let (jv, txt_ok) = match what {
            0 => {
                let jv = serde_json::to_value(pool_v).map_err(|e| e.to_string())?;
                let txt = serde_json::to_string(&pool_v).map_err(|e| e.to_string())?;
                let back: Result<PoolConfig, _> = serde_json::from_str(&txt);
                let ok = back.map(|b| {
                    let (mut a, mut c) = (vec![], vec![]);
                    e_val_pool(&mut a, &b);
                    e_val_pool(&mut c, &pool_v);
                    a == c
                });
                (jv, ok.unwrap_or(false))
            }
            1 => {
                let jv = serde_json::to_value(timeouts_v).map_err(|e| e.to_string())?;
                let txt = serde_json::to_string(&timeouts_v).map_err(|e| e.to_string())?;
                let back: Result<Timeouts, _> = serde_json::from_str(&txt);
                let ok = back.map(|b| {
                    let (mut a, mut c) = (vec![], vec![]);
                    e_val_timeouts(&mut a, &b);
                    e_val_timeouts(&mut c, &timeouts_v);
                    a == c
                });
                (jv, ok.unwrap_or(false))
            }
            _ => {
                let jv = serde_json::to_value(qm_v).map_err(|e| e.to_string())?;
                let txt = serde_json::to_string(&qm_v).map_err(|e| e.to_string())?;
                let back: Result<QueueMode, _> = serde_json::from_str(&txt);
                (jv, back.map(|b| qm_code(&b) == qm_code(&qm_v)).unwrap_or(false))
            }
        };
        text_ok = txt_ok as Z;
        ser_tree = from_json(&jv);
    } else {
        let mut m = HashMap::new();
        match what {
            0 => {
                m.insert("MAX_SIZE".to_string(), pool_v.max_size.to_string());
                env_for_timeouts("TIMEOUTS__", &pool_v.timeouts, &mut m);
                m.insert("QUEUE_MODE".to_string(), format!("{:?}", pool_v.queue_mode));
            }
            1 => env_for_timeouts("", &timeouts_v, &mut m),
            _ => {
                m.insert("Q".to_string(), format!("{:?}", qm_v));
            }
        }
        let c = env_config(m, src == 2).map_err(|e| e.to_string())?;
        let t = from_config(&c.cache);
        ser_tree = if what == 2 {
            match t {
                Tree::Map(m) => m.into_iter().find(|(k, _)| k == b"q").map(|(_, v)| v).unwrap_or(Tree::Null),
                _ => Tree::Null,
            }
        } else {
            t
        };
    }
    // ---- the tree that is read
    let tree = if src == 1 {
        d_tree(&mut Cur::new(&rows[1]), 8)
    } else if src == 3 {
        // the serialised value with whole sections left out: cfg[5] = bit mask over the keys
        // (PoolConfig: 1 timeouts, 2 queue_mode; Timeouts: 1 wait, 2 create, 4 recycle)
        let mask = cfg.get(5).copied().unwrap_or(0);
        let keys: &[(&[u8], Z)] = if what == 0 {
            &[(b"timeouts", 1), (b"queue_mode", 2)]
        } else {
            &[(b"wait", 1), (b"create", 2), (b"recycle", 4)]
        };
        match ser_tree.clone() {
            Tree::Map(m) => Tree::Map(
                m.into_iter().filter(|(k, _)| !keys.iter().any(|(n, b)| k.as_slice() == *n && mask & b != 0)).collect(),
            ),
            t => t,
        }
    } else {
        ser_tree.clone()
    };
    if has_other(&tree) || has_other(&ser_tree) {
        return Err("tree outside the modelled language (float or array)".to_string());
    }
    let mut r1 = vec![];
    e_tree(&mut r1, &tree);
    // ---- deserialise
    let mut o1 = vec![];
    let res = catch_unwind(AssertUnwindSafe(|| {
        let mut o1 = vec![];
        macro_rules! de {
            ($ty:ty, $enc:expr) => {{
                let r: Result<$ty, String> = if lenient {
                    to_config(&tree).try_deserialize::<$ty>().map_err(|e| e.to_string())
                } else {
                    serde_json::from_value::<$ty>(to_json(&tree)).map_err(|e| e.to_string())
                };
                match r {
                    Ok(v) => {
                        o1.push(1);
                        $enc(&mut o1, &v);
                    }
                    Err(_) => o1.push(0),
                }
            }};
        }
        match what {
            0 => de!(PoolConfig, e_val_pool),
            1 => de!(Timeouts, e_val_timeouts),
            _ => de!(QueueMode, |o: &mut Vec<Z>, v: &QueueMode| o.push(qm_code(v))),
        }
        o1
    }));
    match res {
        Ok(o) => o1 = o,
        Err(_) => o1.push(9),
    }
    let mut o0 = vec![];
    e_tree(&mut o0, &ser_tree);
    Ok((cfg.to_vec(), vec![rows[0].clone(), r1], vec![o0, o1, vec![text_ok]]))
}
