//! SplitMix64: every random choice of a harness derives from one state.
#[derive(Clone, Debug)]
pub struct Rng(pub u64);

impl Rng {
    pub fn new(seed: u64) -> Self {
        Rng(seed ^ 0x9E37_79B9_7F4A_7C15)
    }
    pub fn next(&mut self) -> u64 {
        self.0 = self.0.wrapping_add(0x9E37_79B9_7F4A_7C15);
        let mut z = self.0;
        z = (z ^ (z >> 30)).wrapping_mul(0xBF58_476D_1CE4_E5B9);
        z = (z ^ (z >> 27)).wrapping_mul(0x94D0_49BB_1331_11EB);
        z ^ (z >> 31)
    }
    /// uniform in 0..n (n > 0)
    pub fn below(&mut self, n: u64) -> u64 {
        self.next() % n
    }
    pub fn chance(&mut self, percent: u64) -> bool {
        self.below(100) < percent
    }
    /// pick an index according to integer weights (sum > 0)
    pub fn weighted(&mut self, w: &[u64]) -> usize {
        let total: u64 = w.iter().sum();
        let mut x = self.below(total);
        for (i, wi) in w.iter().enumerate() {
            if x < *wi {
                return i;
            }
            x -= *wi;
        }
        w.len() - 1
    }
    pub fn fork(&mut self) -> Rng {
        Rng::new(self.next())
    }
}
