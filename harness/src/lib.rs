//! Shared parts of the correspondence harnesses: PRNG, baton scheduler, hand polling.
pub mod rng;
pub mod sched;
