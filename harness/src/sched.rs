//! Baton scheduler: every logical task is an OS thread and exactly one of them runs at a
//! time. A task hands the baton back at every schedule point (`deadpool::verif::point`),
//! when its hand-polled future is pending (at a scripted gate or on the semaphore) and when
//! it is done. The driver decides who continues, so thread level interleavings are chosen,
//! not left to the operating system.
use std::cell::RefCell;
use std::future::Future;
use std::panic::{catch_unwind, AssertUnwindSafe};
use std::pin::Pin;
use std::sync::atomic::{AtomicBool, Ordering};
use std::sync::{Arc, Condvar, Mutex};
use std::task::{Context, Poll, Wake, Waker};

#[derive(Clone, Debug, PartialEq, Eq)]
pub enum Yield {
    /// spawned, did not run yet
    Start,
    /// stopped at a schedule point of the code under test
    Point(&'static str),
    /// blocked in a scripted gate (manager call or hook); `sync` gates cannot be cancelled
    Gate { kind: u8, k: u8, sync: bool },
    /// future pending and not at a gate: waiting for a semaphore permit
    Sem,
    /// finished with a result code
    Done(i64),
}

#[derive(Clone, Copy, Debug, PartialEq, Eq)]
pub enum Cmd {
    Run,
    Env(u8),
    Cancel,
}

pub const OUT_OK: u8 = 0;
pub const OUT_ERR: u8 = 1;
pub const OUT_PANIC: u8 = 2;

struct Shared {
    turn: Option<usize>,
    cmd: Vec<Cmd>,
    state: Vec<Yield>,
    woken: Vec<Arc<AtomicBool>>,
}

#[derive(Clone)]
pub struct Sched(Arc<(Mutex<Shared>, Condvar)>);

#[derive(Clone)]
pub struct TaskCtx {
    pub id: usize,
    sched: Sched,
    woken: Arc<AtomicBool>,
}

thread_local! {
    static CUR: RefCell<Option<TaskCtx>> = const { RefCell::new(None) };
    static GATE: RefCell<Option<(u8, u8)>> = const { RefCell::new(None) };
    static OUTCOME: RefCell<Option<u8>> = const { RefCell::new(None) };
}

/// The task the calling thread belongs to (None on a thread the harness did not create).
pub fn current() -> Option<TaskCtx> {
    CUR.with(|c| c.borrow().clone())
}
pub fn current_task() -> Option<usize> {
    CUR.with(|c| c.borrow().as_ref().map(|c| c.id))
}

impl Default for Sched {
    fn default() -> Self {
        Self::new()
    }
}

impl Sched {
    pub fn new() -> Self {
        Sched(Arc::new((
            Mutex::new(Shared {
                turn: None,
                cmd: vec![],
                state: vec![],
                woken: vec![],
            }),
            Condvar::new(),
        )))
    }

    pub fn ntasks(&self) -> usize {
        self.0 .0.lock().unwrap().state.len()
    }

    /// Spawns a task. It does not run before its first `resume`.
    pub fn spawn(&self, body: impl FnOnce(&TaskCtx) -> i64 + Send + 'static) -> usize {
        let woken = Arc::new(AtomicBool::new(false));
        let id = {
            let mut g = self.0 .0.lock().unwrap();
            g.state.push(Yield::Start);
            g.cmd.push(Cmd::Run);
            g.woken.push(woken.clone());
            g.state.len() - 1
        };
        let ctx = TaskCtx {
            id,
            sched: self.clone(),
            woken,
        };
        let _ = std::thread::Builder::new()
            .stack_size(512 * 1024)
            .spawn(move || {
                ctx.wait_turn();
                CUR.with(|c| *c.borrow_mut() = Some(ctx.clone()));
                let c2 = ctx.clone();
                deadpool::verif::set_thread_hook(Some(Box::new(move |p| {
                    let _ = c2.yield_(Yield::Point(p));
                })));
                let r = catch_unwind(AssertUnwindSafe(|| body(&ctx)));
                deadpool::verif::set_thread_hook(None);
                CUR.with(|c| *c.borrow_mut() = None);
                let code = match r {
                    Ok(v) => v,
                    Err(_) => crate::sched::RES_PANICKED,
                };
                ctx.finish(Yield::Done(code));
            })
            .expect("spawn");
        id
    }

    /// Hands the baton to task `id` with a command and waits until it yields again.
    pub fn resume(&self, id: usize, cmd: Cmd) -> Yield {
        let (m, cv) = &*self.0;
        let mut g = m.lock().unwrap();
        assert!(!matches!(g.state[id], Yield::Done(_)), "resume of a finished task");
        g.cmd[id] = cmd;
        g.turn = Some(id);
        cv.notify_all();
        while g.turn.is_some() {
            g = cv.wait(g).unwrap();
        }
        g.state[id].clone()
    }

    pub fn state(&self, id: usize) -> Yield {
        self.0 .0.lock().unwrap().state[id].clone()
    }
    pub fn states(&self) -> Vec<Yield> {
        self.0 .0.lock().unwrap().state.clone()
    }
    pub fn woken(&self, id: usize) -> bool {
        self.0 .0.lock().unwrap().woken[id].load(Ordering::SeqCst)
    }
}

pub const RES_PANICKED: i64 = 8;
pub const RES_CANCELLED: i64 = 9;

impl TaskCtx {
    fn wait_turn(&self) -> Cmd {
        let (m, cv) = &*self.sched.0;
        let mut g = m.lock().unwrap();
        while g.turn != Some(self.id) {
            g = cv.wait(g).unwrap();
        }
        // whatever the task does next follows a schedule point
        deadpool::verif::arm();
        g.cmd[self.id]
    }
    fn finish(&self, y: Yield) {
        let (m, cv) = &*self.sched.0;
        let mut g = m.lock().unwrap();
        g.state[self.id] = y;
        g.turn = None;
        cv.notify_all();
    }
    /// Gives the baton back, blocks until resumed, returns the command of the resume.
    pub fn yield_(&self, y: Yield) -> Cmd {
        let (m, cv) = &*self.sched.0;
        let mut g = m.lock().unwrap();
        g.state[self.id] = y;
        g.turn = None;
        cv.notify_all();
        while g.turn != Some(self.id) {
            g = cv.wait(g).unwrap();
        }
        g.cmd[self.id]
    }
}

struct FlagWaker(Arc<AtomicBool>);
impl Wake for FlagWaker {
    fn wake(self: Arc<Self>) {
        self.0.store(true, Ordering::SeqCst);
    }
    fn wake_by_ref(self: &Arc<Self>) {
        self.0.store(true, Ordering::SeqCst);
    }
}

pub enum PollEnd<T> {
    Ready(T),
    Panicked,
    Cancelled,
}

/// Polls `fut` by hand on the calling task thread until it completes, panics or the driver
/// cancels it (drops it while it is suspended).
pub fn drive<F: Future>(ctx: &TaskCtx, fut: F) -> PollEnd<F::Output> {
    let mut fut: Pin<Box<F>> = Box::pin(fut);
    let waker = Waker::from(Arc::new(FlagWaker(ctx.woken.clone())));
    let mut cx = Context::from_waker(&waker);
    loop {
        ctx.woken.store(false, Ordering::SeqCst);
        let r = catch_unwind(AssertUnwindSafe(|| fut.as_mut().poll(&mut cx)));
        match r {
            Err(_) => {
                // the panic unwound through the future: its locals are already dropped
                let _ = catch_unwind(AssertUnwindSafe(move || drop(fut)));
                return PollEnd::Panicked;
            }
            Ok(Poll::Ready(v)) => return PollEnd::Ready(v),
            Ok(Poll::Pending) => {
                let y = match GATE.with(|g| g.borrow_mut().take()) {
                    Some((kind, k)) => Yield::Gate {
                        kind,
                        k,
                        sync: false,
                    },
                    None => Yield::Sem,
                };
                match ctx.yield_(y) {
                    Cmd::Run => continue,
                    Cmd::Env(o) => {
                        OUTCOME.with(|c| *c.borrow_mut() = Some(o));
                        continue;
                    }
                    Cmd::Cancel => {
                        let r = catch_unwind(AssertUnwindSafe(move || drop(fut)));
                        return if r.is_ok() {
                            PollEnd::Cancelled
                        } else {
                            PollEnd::Panicked
                        };
                    }
                }
            }
        }
    }
}

/// An asynchronous scripted gate: pending until the driver supplies an outcome.
pub struct AsyncGate {
    pub kind: u8,
    pub k: u8,
}
impl Future for AsyncGate {
    type Output = u8;
    fn poll(self: Pin<&mut Self>, _cx: &mut Context<'_>) -> Poll<u8> {
        if let Some(o) = OUTCOME.with(|c| c.borrow_mut().take()) {
            return Poll::Ready(o);
        }
        GATE.with(|g| *g.borrow_mut() = Some((self.kind, self.k)));
        Poll::Pending
    }
}

/// A synchronous scripted gate (inside a non-async callback): the thread parks until the
/// driver supplies an outcome. Returns None on a thread that is not a harness task.
pub fn sync_gate(kind: u8, k: u8) -> Option<u8> {
    let ctx = current()?;
    match ctx.yield_(Yield::Gate {
        kind,
        k,
        sync: true,
    }) {
        Cmd::Env(o) => Some(o),
        other => panic!("sync gate resumed with {:?}", other),
    }
}
