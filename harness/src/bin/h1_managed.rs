//! H1: thread-level correspondence harness for `deadpool::managed::Pool`.
//!
//! Generates (or replays) label sequences, executes each label on the real pool under the
//! baton scheduler and records an observation after every label. One JSON line per trace.
//!
//! usage: h1_managed gen <seed> <ntraces> <profile> <maxlabels>
//!        h1_managed replay <file>        (lines: {"cfg":[..],"labels":[[..],..]})
use std::collections::BTreeMap;
use std::fmt::Write as _;
use std::sync::atomic::{AtomicUsize, Ordering};
use std::sync::{Arc, Mutex};
use std::time::{Duration, Instant};

use deadpool::managed::{
    self, Hook, HookError, Metrics, Object, PoolError, QueueMode, RecycleError, RecycleResult,
    TimeoutType, Timeouts,
};
use verif_harness::rng::Rng;
use verif_harness::sched::{self, *};

// ---------------------------------------------------------------- events
const EV_CREATE_CALL: i64 = 1;
const EV_RECYCLE_CALL: i64 = 2;
const EV_HOOK_CALL: i64 = 3;
const EV_DETACH: i64 = 4;
const EV_DESTROY: i64 = 5;
const EV_HANDOUT: i64 = 6;
const EV_RETAIN_SEE: i64 = 7;
const EV_RETAIN_RESULT: i64 = 8;
const EV_REMOVED: i64 = 9;
const EV_STATUS: i64 = 10;
const EV_CREATED: i64 = 11;
const EV_ANOMALY: i64 = 12;

struct Log {
    events: Mutex<Vec<[i64; 5]>>,
    next_oid: AtomicUsize,
    /// first-seen creation instant and last-seen recycled instant per oid
    stamps: Mutex<BTreeMap<usize, (Instant, Option<Instant>)>>,
}
impl Log {
    fn ev(&self, e: [i64; 5]) {
        self.events.lock().unwrap().push(e);
    }
    /// metrics sanity that cannot be expressed by comparing integers with the model:
    /// `created` never changes, `recycled` never moves backwards and is not before `created`
    /// at hand-out: a reused object carries a `recycled` stamp taken during this very get
    fn see_handout(&self, oid: usize, m: &Metrics, started: std::time::Instant) {
        if m.recycle_count > 0 {
            match m.recycled {
                Some(r) if r >= started => {}
                _ => self.ev([EV_ANOMALY, oid as i64, 5, 0, 0]),
            }
        }
    }
    fn see_metrics(&self, oid: usize, m: &Metrics) {
        let mut st = self.stamps.lock().unwrap();
        match st.get_mut(&oid) {
            None => {
                let _ = st.insert(oid, (m.created, m.recycled));
            }
            Some((c, r)) => {
                if *c != m.created {
                    self.ev([EV_ANOMALY, oid as i64, 1, 0, 0]);
                }
                match (*r, m.recycled) {
                    (Some(_), None) => self.ev([EV_ANOMALY, oid as i64, 2, 0, 0]),
                    (Some(a), Some(b)) if b < a => self.ev([EV_ANOMALY, oid as i64, 3, 0, 0]),
                    _ => {}
                }
                *r = m.recycled;
            }
        }
        if let Some(r) = m.recycled {
            if r < m.created {
                self.ev([EV_ANOMALY, oid as i64, 4, 0, 0]);
            }
        }
    }
}

fn tid() -> i64 {
    match sched::current_task() {
        Some(t) => t as i64,
        None => -1, // a call from a thread the harness did not create: background work
    }
}

struct Obj {
    id: usize,
    log: Arc<Log>,
}
impl Drop for Obj {
    fn drop(&mut self) {
        self.log.ev([EV_DESTROY, self.id as i64, tid(), 0, 0]);
    }
}

struct Mgr {
    log: Arc<Log>,
}

const K_PRE: u8 = 0;
const K_RECYCLE: u8 = 1;
const K_POST: u8 = 2;
const K_CREATE: u8 = 3;
const K_POSTCREATE: u8 = 4;

impl managed::Manager for Mgr {
    type Type = Obj;
    type Error = ();
    async fn create(&self) -> Result<Obj, ()> {
        self.log.ev([EV_CREATE_CALL, tid(), 0, 0, 0]);
        match (AsyncGate { kind: K_CREATE, k: 0 }).await {
            OUT_OK => {
                let id = self.log.next_oid.fetch_add(1, Ordering::SeqCst);
                self.log.ev([EV_CREATED, id as i64, tid(), 0, 0]);
                Ok(Obj {
                    id,
                    log: self.log.clone(),
                })
            }
            OUT_ERR => Err(()),
            _ => panic!("scripted panic in create"),
        }
    }
    async fn recycle(&self, obj: &mut Obj, m: &Metrics) -> RecycleResult<()> {
        self.log.see_metrics(obj.id, m);
        self.log.ev([
            EV_RECYCLE_CALL,
            obj.id as i64,
            m.recycle_count as i64,
            m.recycled.is_some() as i64,
            tid(),
        ]);
        match (AsyncGate { kind: K_RECYCLE, k: 0 }).await {
            OUT_OK => Ok(()),
            OUT_ERR => Err(RecycleError::message("scripted")),
            _ => panic!("scripted panic in recycle"),
        }
    }
    fn detach(&self, obj: &mut Obj) {
        self.log.ev([EV_DETACH, obj.id as i64, tid(), 0, 0]);
    }
}

fn hook_result(o: u8, backend: bool) -> Result<(), HookError<()>> {
    match o {
        OUT_OK => Ok(()),
        // both variants of HookError are used (decided by the object's identity, so that a replay
        // does the same): what get() answers must not depend on it
        OUT_ERR => {
            if backend {
                Err(HookError::Backend(()))
            } else {
                Err(HookError::message("scripted"))
            }
        }
        _ => panic!("scripted panic in hook"),
    }
}

fn make_hook(log: Arc<Log>, kind: u8, k: u8, is_async: bool) -> Hook<Mgr> {
    if is_async {
        Hook::async_fn(move |obj: &mut Obj, m: &Metrics| {
            let log = log.clone();
            let (id, rc, rs) = (obj.id, m.recycle_count, m.recycled.is_some());
            log.see_metrics(id, m);
            Box::pin(async move {
                log.ev([EV_HOOK_CALL, (kind as i64) * 10 + k as i64, id as i64, rc as i64, rs as i64]);
                hook_result((AsyncGate { kind, k }).await, (id + k as usize) % 2 == 1)
            })
        })
    } else {
        Hook::sync_fn(move |obj: &mut Obj, m: &Metrics| {
            log.see_metrics(obj.id, m);
            log.ev([
                EV_HOOK_CALL,
                (kind as i64) * 10 + k as i64,
                obj.id as i64,
                m.recycle_count as i64,
                m.recycled.is_some() as i64,
            ]);
            match sync_gate(kind, k) {
                Some(o) => hook_result(o, (obj.id + k as usize) % 2 == 1),
                None => Ok(()),
            }
        })
    }
}

type Pool = managed::Pool<Mgr>;

// ---------------------------------------------------------------- configuration and labels
#[derive(Clone, Debug)]
struct Cfg {
    max: usize,
    lifo: bool,
    pre: Vec<bool>, // true = async
    post: Vec<bool>,
    pc: Vec<bool>,
}
fn bits(v: &[bool]) -> i64 {
    v.iter().enumerate().map(|(i, b)| (*b as i64) << i).sum()
}
fn unbits(b: i64, n: i64) -> Vec<bool> {
    (0..n).map(|i| (b >> i) & 1 == 1).collect()
}
impl Cfg {
    fn to_ints(&self) -> Vec<i64> {
        vec![
            self.max as i64,
            self.lifo as i64,
            bits(&self.pre),
            self.pre.len() as i64,
            bits(&self.post),
            self.post.len() as i64,
            bits(&self.pc),
            self.pc.len() as i64,
        ]
    }
    fn from_ints(v: &[i64]) -> Cfg {
        Cfg {
            max: v[0] as usize,
            lifo: v[1] != 0,
            pre: unbits(v[2], v[3]),
            post: unbits(v[4], v[5]),
            pc: unbits(v[6], v[7]),
        }
    }
}

// label encodings
const L_START: i64 = 0;
const L_STEP: i64 = 1;
const L_ENV: i64 = 2;
const L_CANCEL: i64 = 3;
const L_MARK: i64 = 4;
// op kinds of Start
const OP_GET: i64 = 0; // a = timeouts code: wait + 3*create + 9*recycle, each 0 none / 1 zero / 2 finite
const OP_DROP: i64 = 1; // a = oid
const OP_TAKE: i64 = 2; // a = oid
const OP_RESIZE: i64 = 3; // a = n
const OP_RETAIN: i64 = 4; // a = decision bits, b = number of decisions (further objects are kept)
const OP_CLOSE: i64 = 5;
const OP_STATUS: i64 = 6;
const OP_DROPPOOL: i64 = 7;

fn timeouts_of(code: i64) -> Timeouts {
    let d = |x: i64| match x {
        0 => None,
        1 => Some(Duration::ZERO),
        // "finite": any non-zero duration; H1 has no runtime, so only zero / non-zero matters.
        // Tiny (sub-millisecond) values on purpose.
        _ => Some(Duration::from_nanos(1 + (code as u64 % 7) * 137)),
    };
    Timeouts {
        wait: d(code % 3),
        create: d((code / 3) % 3),
        recycle: d((code / 9) % 3),
    }
}

fn point_code(p: &str) -> i64 {
    match p {
        "get.acquire" | "get.reacquire" => 2,
        "get.settle" => 5,
        "get.pop" => 6,
        "unready.size_dec" => 7,
        "unready.detach" => 8,
        "create.size_inc" => 9,
        "get.unwind_permit" => 10,
        "get.unwind_users" => 11,
        "return.lock" => 70,
        "return.add_permits" => 71,
        "return.detach" => 72,
        "take.lock" => 73,
        "take.add_permits" => 74,
        "take.detach" => 75,
        "return.surplus_permit" => 76,
        "resize.lock" => 80,
        "close.lock" => 81,
        "status.lock" => 82,
        "retain.lock" => 83,
        // implicit schedule points: an operation on the lock / a semaphore away from its explicit point
        "!mutex.lock" => 90,
        "!sem.acquire" => 91,
        "!sem.try_acquire" => 92,
        "!sem.add_permits" => 93,
        "!sem.close" => 94,
        "!sem.is_closed" => 95,
        "!sem.available_permits" => 96,
        "!atomic.load" => 97,
        "!atomic.update" => 98,
        _ => 99,
    }
}

// ---------------------------------------------------------------- one trace on the real pool
struct World {
    cfg: Cfg,
    log: Arc<Log>,
    sched: Sched,
    pool: Arc<Mutex<Option<Pool>>>,
    held: Arc<Mutex<BTreeMap<usize, Object<Mgr>>>>,
    taken: Arc<Mutex<Vec<Obj>>>,
    ev_seen: usize,
    ops: Vec<i64>, // op kind per task
    droppool_pending: bool,
}

impl World {
    fn new(cfg: Cfg) -> World {
        let log = Arc::new(Log {
            events: Mutex::new(vec![]),
            next_oid: AtomicUsize::new(0),
            stamps: Mutex::new(BTreeMap::new()),
        });
        let qm = if cfg.lifo { QueueMode::Lifo } else { QueueMode::Fifo };
        // both ways of configuring a pool are used (decided by the configuration itself, so that a
        // replay builds the same pool)
        let mut b = if (cfg.max + cfg.pre.len() + cfg.post.len()) % 2 == 0 {
            Pool::builder(Mgr { log: log.clone() }).config(managed::PoolConfig {
                max_size: cfg.max,
                timeouts: Timeouts::default(),
                queue_mode: qm,
            })
        } else {
            // the builder's setters in either order (the result must not depend on it)
            if (cfg.max + cfg.pc.len()) % 2 == 0 {
                Pool::builder(Mgr { log: log.clone() }).max_size(cfg.max).queue_mode(qm)
            } else {
                Pool::builder(Mgr { log: log.clone() }).queue_mode(qm).timeouts(Timeouts::default()).max_size(cfg.max)
            }
        };
        for (k, a) in cfg.pre.iter().enumerate() {
            b = b.pre_recycle(make_hook(log.clone(), K_PRE, k as u8, *a));
        }
        for (k, a) in cfg.post.iter().enumerate() {
            b = b.post_recycle(make_hook(log.clone(), K_POST, k as u8, *a));
        }
        for (k, a) in cfg.pc.iter().enumerate() {
            b = b.post_create(make_hook(log.clone(), K_POSTCREATE, k as u8, *a));
        }
        let pool = b.build().expect("build");
        World {
            cfg,
            log,
            sched: Sched::new(),
            pool: Arc::new(Mutex::new(Some(pool))),
            held: Arc::new(Mutex::new(BTreeMap::new())),
            taken: Arc::new(Mutex::new(vec![])),
            ev_seen: 0,
            ops: vec![],
            droppool_pending: false,
        }
    }

    fn pool_alive(&self) -> bool {
        self.pool.lock().unwrap().is_some() && !self.droppool_pending
    }

    fn task_code(&self, t: usize, y: &Yield) -> i64 {
        match y {
            Yield::Start => 1,
            Yield::Point(p) => point_code(p),
            Yield::Gate { kind, k, .. } => 20 + 10 * (*kind as i64) + *k as i64,
            Yield::Sem => 3 + self.sched.woken(t) as i64,
            Yield::Done(c) => 100 + c,
        }
    }

    fn observe(&mut self) -> Vec<i64> {
        let mut o = vec![];
        // once the last handle is being dropped the pool counts as gone (as in the model)
        let pool = if self.droppool_pending {
            None
        } else {
            self.pool.lock().unwrap().clone()
        };
        match pool {
            Some(p) => {
                let s = p.verif_snapshot();
                o.extend([
                    1,
                    s.permits as i64,
                    p.is_closed() as i64, // through the public API
                    s.size as i64,
                    s.max_size as i64,
                    s.users as i64,
                    s.debt as i64,
                ]);
                let mut idle = vec![];
                p.verif_visit_idle(|ob, m| {
                    idle.push([ob.id as i64, m.recycle_count as i64, m.recycled.is_some() as i64])
                });
                assert_eq!(idle.len(), s.idle_len);
                o.push(idle.len() as i64);
                for i in idle {
                    o.extend(i);
                }
            }
            None => o.extend([0, 0, 0, 0, 0, 0, 0, 0]),
        }
        let st = self.sched.states();
        o.push(st.len() as i64);
        for (t, y) in st.iter().enumerate() {
            o.push(self.task_code(t, y));
        }
        let evs = self.log.events.lock().unwrap();
        o.push((evs.len() - self.ev_seen) as i64);
        for e in &evs[self.ev_seen..] {
            o.extend(e);
        }
        self.ev_seen = evs.len();
        o
    }

    /// everything the future behaviour depends on (used to prune the exhaustive exploration)
    fn state_key(&self, script_pos: usize) -> Vec<i64> {
        let mut o = vec![script_pos as i64, self.log.next_oid.load(Ordering::SeqCst) as i64];
        let pool = if self.droppool_pending { None } else { self.pool.lock().unwrap().clone() };
        if let Some(p) = pool {
            let s = p.verif_snapshot();
            o.extend([s.permits as i64, s.closed as i64, s.size as i64, s.max_size as i64, s.users as i64, s.debt as i64]);
            p.verif_visit_idle(|ob, m| o.extend([ob.id as i64, m.recycle_count as i64]));
        }
        o.push(-1);
        let st = self.sched.states();
        for (t, y) in st.iter().enumerate() {
            o.push(self.task_code(t, y));
        }
        o.push(-2);
        for k in self.held.lock().unwrap().keys() {
            o.push(*k as i64);
        }
        o
    }

    /// Is the label executable on the implementation right now?
    fn enabled(&self, l: &[i64]) -> bool {
        match l[0] {
            L_START => {
                if l[1] as usize != self.sched.ntasks() {
                    return false;
                }
                match l[2] {
                    OP_DROP | OP_TAKE => self.held.lock().unwrap().contains_key(&(l[3] as usize)),
                    OP_DROPPOOL => {
                        self.pool_alive()
                            && self.sched.states().iter().all(|y| matches!(y, Yield::Done(_)))
                    }
                    _ => self.pool_alive(),
                }
            }
            L_MARK => true,
            _ => {
                let t = l[1] as usize;
                if t >= self.sched.ntasks() {
                    return false;
                }
                match (l[0], self.sched.state(t)) {
                    (L_STEP, Yield::Start) | (L_STEP, Yield::Point(_)) | (L_STEP, Yield::Sem) => true,
                    (L_ENV, Yield::Gate { .. }) => (0..=2).contains(&l[2]),
                    (L_CANCEL, Yield::Gate { sync, .. }) => !sync,
                    (L_CANCEL, Yield::Sem) => true,
                    _ => false,
                }
            }
        }
    }

    fn start(&mut self, op: i64, a: i64, b: i64) {
        let pool = self.pool.clone();
        let held = self.held.clone();
        let taken = self.taken.clone();
        let log = self.log.clone();
        self.ops.push(op);
        // the object leaves the caller's hands when the operation is issued
        let mut in_hand: Option<Object<Mgr>> = match op {
            OP_DROP | OP_TAKE => self.held.lock().unwrap().remove(&(a as usize)),
            _ => None,
        };
        if op == OP_DROPPOOL {
            self.droppool_pending = true;
        }
        let _ = self.sched.spawn(move |ctx| {
            // every op works on its own clone of the pool handle, as a user task would
            let p = pool.lock().unwrap().clone();
            match op {
                OP_GET => {
                    let p = p.unwrap();
                    let to = timeouts_of(a);
                    let started = std::time::Instant::now();
                    let r = drive(ctx, p.timeout_get(&to));
                    match r {
                        PollEnd::Ready(Ok(obj)) => {
                            let m = *Object::metrics(&obj);
                            log.see_metrics(obj.id, &m);
                            log.see_handout(obj.id, &m, started);
                            log.ev([
                                EV_HANDOUT,
                                obj.id as i64,
                                ctx.id as i64,
                                m.recycle_count as i64,
                                m.recycled.is_some() as i64,
                            ]);
                            let _ = held.lock().unwrap().insert(obj.id, obj);
                            0
                        }
                        PollEnd::Ready(Err(e)) => match e {
                            PoolError::Timeout(TimeoutType::Wait) => 1,
                            PoolError::Timeout(TimeoutType::Create) => 2,
                            PoolError::Timeout(TimeoutType::Recycle) => 3,
                            PoolError::Backend(()) => 4,
                            PoolError::PostCreateHook(_) => 5,
                            PoolError::Closed => 6,
                            PoolError::NoRuntimeSpecified => 7,
                        },
                        PollEnd::Panicked => RES_PANICKED,
                        PollEnd::Cancelled => RES_CANCELLED,
                    }
                }
                OP_DROP => {
                    drop(p);
                    let o = in_hand.take().unwrap();
                    if (o.id + ctx.id) % 3 == 0 {
                        // the holder panics: the object goes back while its thread unwinds
                        let _ = std::panic::catch_unwind(std::panic::AssertUnwindSafe(move || {
                            let _o = o;
                            std::panic::resume_unwind(Box::new(()))
                        }));
                    } else {
                        drop(o);
                    }
                    10
                }
                OP_TAKE => {
                    drop(p);
                    let inner = Object::take(in_hand.take().unwrap());
                    log.ev([EV_REMOVED, inner.id as i64, ctx.id as i64, 0, 0]);
                    taken.lock().unwrap().push(inner);
                    10
                }
                OP_RESIZE => {
                    p.unwrap().resize(a as usize);
                    10
                }
                OP_RETAIN => {
                    let mut i = 0;
                    let r = p.unwrap().retain(|ob, m| {
                        log.see_metrics(ob.id, &m);
                        log.ev([
                            EV_RETAIN_SEE,
                            ob.id as i64,
                            m.recycle_count as i64,
                            m.recycled.is_some() as i64,
                            0,
                        ]);
                        let keep = if i < b { (a >> i) & 1 == 1 } else { true };
                        i += 1;
                        keep
                    });
                    log.ev([EV_RETAIN_RESULT, r.retained as i64, r.removed.len() as i64, 0, 0]);
                    for ob in r.removed {
                        log.ev([EV_REMOVED, ob.id as i64, ctx.id as i64, 0, 0]);
                        taken.lock().unwrap().push(ob);
                    }
                    10
                }
                OP_CLOSE => {
                    p.unwrap().close();
                    10
                }
                OP_STATUS => {
                    let s = p.unwrap().status();
                    log.ev([
                        EV_STATUS,
                        s.max_size as i64,
                        s.size as i64,
                        s.available as i64,
                        s.waiting as i64,
                    ]);
                    10
                }
                OP_DROPPOOL => {
                    drop(p);
                    let h = pool.lock().unwrap().take();
                    drop(h);
                    10
                }
                _ => unreachable!(),
            }
        });
    }

    fn apply(&mut self, l: &[i64]) {
        match l[0] {
            L_START => self.start(l[2], l[3], l[4]),
            L_STEP => {
                let _ = self.sched.resume(l[1] as usize, Cmd::Run);
            }
            L_ENV => {
                let _ = self.sched.resume(l[1] as usize, Cmd::Env(l[2] as u8));
            }
            L_CANCEL => {
                let _ = self.sched.resume(l[1] as usize, Cmd::Cancel);
            }
            _ => {}
        }
    }

    /// labels that bring every unfinished task to its end (used to finish a trace)
    fn drain_label(&self) -> Option<Vec<i64>> {
        for (t, y) in self.sched.states().iter().enumerate() {
            let t = t as i64;
            match y {
                Yield::Done(_) => {}
                Yield::Start | Yield::Point(_) => return Some(vec![L_STEP, t, 0, 0, 0]),
                Yield::Gate { sync: true, .. } => return Some(vec![L_ENV, t, 0, 0, 0]),
                Yield::Gate { sync: false, .. } => return Some(vec![L_CANCEL, t, 0, 0, 0]),
                Yield::Sem => {
                    if self.sched.woken(t as usize) {
                        return Some(vec![L_STEP, t, 0, 0, 0]);
                    }
                    return Some(vec![L_CANCEL, t, 0, 0, 0]);
                }
            }
        }
        None
    }
}

// ---------------------------------------------------------------- generation
#[derive(Clone, Copy, PartialEq)]
enum Profile {
    Long,   // a small pool, several dozen reuse cycles
    Order,  // fill, return in random order, retain a random subset, reuse (C08 / C09)
    Core,   // no resize, no close
    Resize, // resize, no close
    Close,  // close and resize
    Mixed,
}

struct Gen {
    rng: Rng,
    profile: Profile,
    max_labels: usize,
}

impl Gen {
    fn gen_cfg(&mut self) -> Cfg {
        let r = &mut self.rng;
        let max = [0usize, 1, 1, 2, 2, 2, 3, 4][r.below(8) as usize];
        let hooks = |r: &mut Rng| -> Vec<bool> {
            let n = [0, 0, 1, 1, 2][r.below(5) as usize];
            (0..n).map(|_| r.chance(50)).collect()
        };
        Cfg {
            max,
            lifo: r.chance(50),
            pre: hooks(r),
            post: hooks(r),
            pc: hooks(r),
        }
    }

    fn choose(&mut self, w: &World, total_cap: usize, progress: u64) -> Option<Vec<i64>> {
        let r = &mut self.rng;
        let states = w.sched.states();
        let mut cands: Vec<(u64, Vec<i64>)> = vec![];
        let mut active = 0;
        for (t, y) in states.iter().enumerate() {
            let ti = t as i64;
            match y {
                Yield::Done(_) => {}
                Yield::Start | Yield::Point(_) => {
                    active += 1;
                    cands.push((14, vec![L_STEP, ti, 0, 0, 0]));
                }
                Yield::Gate { sync, .. } => {
                    active += 1;
                    cands.push((12, vec![L_ENV, ti, 0, 0, 0]));
                    cands.push((3, vec![L_ENV, ti, 1, 0, 0]));
                    cands.push((1, vec![L_ENV, ti, 2, 0, 0]));
                    if !sync {
                        cands.push((2, vec![L_CANCEL, ti, 0, 0, 0]));
                    }
                }
                Yield::Sem => {
                    active += 1;
                    let woken = w.sched.woken(t);
                    cands.push((if woken { 10 } else { 1 }, vec![L_STEP, ti, 0, 0, 0]));
                    cands.push((if woken { 2 } else { 2 }, vec![L_CANCEL, ti, 0, 0, 0]));
                }
            }
        }
        let n = states.len();
        if w.pool_alive() && active < 7 && n < total_cap {
            let nt = n as i64;
            let held: Vec<usize> = w.held.lock().unwrap().keys().cloned().collect();
            // timeouts code: mostly plain / non-blocking, sometimes the no-runtime cases
            let tk = match r.below(40) {
                0..=24 => 0,
                25..=34 => 1,
                35 => 2,
                36 => 3 * (1 + r.below(2) as i64),
                37 => 9 * (1 + r.below(2) as i64),
                _ => r.below(27) as i64,
            };
            let idle_len = w.pool.lock().unwrap().as_ref().map(|p| p.verif_snapshot().idle_len).unwrap_or(0) as u64;
            if active < 4 {
                cands.push((if idle_len > 0 { 16 } else if held.len() >= 2 { 3 } else { 7 }, vec![L_START, nt, OP_GET, tk, 0]));
            }
            if !held.is_empty() {
                let o = held[r.below(held.len() as u64) as usize] as i64;
                cands.push((10 + 8 * held.len() as u64, vec![L_START, nt, OP_DROP, o, 0]));
                let o = held[r.below(held.len() as u64) as usize] as i64;
                cands.push((3, vec![L_START, nt, OP_TAKE, o, 0]));
            }
            // status() is asked more often once the pool is closed (objects may still be out)
            let closed_now = w.pool.lock().unwrap().as_ref().map(|p| p.verif_snapshot().closed).unwrap_or(false);
            cands.push((if closed_now { 5 } else { 1 }, vec![L_START, nt, OP_STATUS, 0, 0]));
            let nb = r.below(4) as i64;
            cands.push((if idle_len > 0 { 4 } else { 1 }, vec![L_START, nt, OP_RETAIN, r.below(1 << nb) as i64, nb]));
            if self.profile != Profile::Core {
                let cur = w.pool.lock().unwrap().as_ref().unwrap().verif_snapshot().max_size as u64;
                // mostly small moves around the current limit, sometimes anything in 0..=cur+2
                let target = match r.below(8) {
                    0 => 0,
                    1 | 2 => cur.saturating_sub(1),
                    3 | 4 => cur + 1,
                    5 => cur + 2,
                    6 => cur,
                    _ => r.below(cur + 3),
                };
                cands.push((2, vec![L_START, nt, OP_RESIZE, target as i64, 0]));
                if self.profile == Profile::Resize {
                    let snap = w.pool.lock().unwrap().as_ref().unwrap().verif_snapshot();
                    let out = snap.size.saturating_sub(snap.idle_len) as u64;
                    if snap.debt > 0 && snap.idle_len > 0 {
                        // retain (removing something) while a shrink is still owed permits
                        let nb = snap.idle_len.min(4) as i64;
                        cands.push((6, vec![L_START, nt, OP_RETAIN, r.below((1 << nb) - 1) as i64, nb]));
                    }
                    if snap.debt >= 2 {
                        // a grow that is smaller than what is still owed to the last shrink
                        let by = 1 + r.below(snap.debt as u64 - 1);
                        cands.push((5, vec![L_START, nt, OP_RESIZE, (cur + by) as i64, 0]));
                    } else if out >= 2 && cur >= 2 {
                        // a shrink by two or more below what is checked out
                        let to = cur.saturating_sub(2 + r.below(2));
                        cands.push((3, vec![L_START, nt, OP_RESIZE, to as i64, 0]));
                    }
                }
            }
            // close late, so that most of the history runs on an open pool
            let close_from = if self.profile == Profile::Close { 35 } else { 60 };
            if (self.profile == Profile::Close || self.profile == Profile::Mixed) && progress >= close_from {
                cands.push((2, vec![L_START, nt, OP_CLOSE, 0, 0]));
            }
        }
        if cands.is_empty() {
            return None;
        }
        let ws: Vec<u64> = cands.iter().map(|c| c.0).collect();
        let i = r.weighted(&ws);
        Some(cands.swap_remove(i).1)
    }
}

struct TraceOut {
    cfg: Cfg,
    labels: Vec<Vec<i64>>,
    obs: Vec<Vec<i64>>,
    err: Option<String>,
}

/// VERIF_ECHO=1: every label is written to stderr before it is executed, so that the input of a run
/// in which the pool aborts the process (a panic while panicking) can be recovered
fn echo() -> bool {
    static E: std::sync::OnceLock<bool> = std::sync::OnceLock::new();
    *E.get_or_init(|| std::env::var_os("VERIF_ECHO").is_some())
}

fn run_label(w: &mut World, out: &mut TraceOut, l: Vec<i64>) -> bool {
    if echo() {
        if out.labels.is_empty() {
            eprintln!("@cfg {}", ints(&out.cfg.to_ints()));
        }
        eprintln!("@l {}", ints(&l));
    }
    if !w.enabled(&l) {
        out.err = Some(format!("label {:?} not enabled on the implementation at step {}", l, out.labels.len()));
        return false;
    }
    w.apply(&l);
    out.labels.push(l);
    out.obs.push(w.observe());
    true
}

/// drain all tasks, give everything back, then probe the capacity through the public API
fn finish(w: &mut World, out: &mut TraceOut, probe: bool, orphan: bool) {
    let _ = run_label(w, out, vec![L_MARK, 1, 0, 0, 0]);
    let mut guard = 0;
    while let Some(l) = w.drain_label() {
        if !run_label(w, out, l) {
            return;
        }
        guard += 1;
        if guard > 2000 {
            out.err = Some("drain does not terminate".into());
            return;
        }
    }
    if !probe || !w.pool_alive() {
        return;
    }
    if orphan {
        // all pool handles go away while objects are still out; they are dropped / taken afterwards
        let t = w.sched.ntasks() as i64;
        if !run_label(w, out, vec![L_START, t, OP_DROPPOOL, 0, 0]) {
            return;
        }
        while let Some(l) = w.drain_label() {
            if !run_label(w, out, l) {
                return;
            }
        }
        let mut k = 0;
        loop {
            let o = match w.held.lock().unwrap().keys().next() {
                Some(o) => *o as i64,
                None => break,
            };
            let t = w.sched.ntasks() as i64;
            k += 1;
            let op = if k % 2 == 0 { OP_TAKE } else { OP_DROP };
            if !run_label(w, out, vec![L_START, t, op, o, 0]) {
                return;
            }
            while let Some(l) = w.drain_label() {
                if !run_label(w, out, l) {
                    return;
                }
            }
        }
        return;
    }
    // return every object
    loop {
        let o = match w.held.lock().unwrap().keys().next() {
            Some(o) => *o as i64,
            None => break,
        };
        let t = w.sched.ntasks() as i64;
        if !run_label(w, out, vec![L_START, t, OP_DROP, o, 0]) {
            return;
        }
        while let Some(l) = w.drain_label() {
            if !run_label(w, out, l) {
                return;
            }
        }
    }
    let _ = run_label(w, out, vec![L_MARK, 2, 0, 0, 0]);
    // read through the observation hook: the lock may have been poisoned by a panicking operation
    let st = w.pool.lock().unwrap().as_ref().unwrap().verif_snapshot();
    let closed = st.closed;
    let n = if closed { 0 } else { st.max_size.min(6) };
    // max_size non-blocking gets (gates answered Ok) and one more
    for _ in 0..=n {
        let t = w.sched.ntasks() as i64;
        if !run_label(w, out, vec![L_START, t, OP_GET, 1, 0]) {
            return;
        }
        loop {
            let l = match w.sched.state(t as usize) {
                Yield::Done(_) => break,
                Yield::Gate { .. } => vec![L_ENV, t, 0, 0, 0],
                _ => vec![L_STEP, t, 0, 0, 0],
            };
            if !run_label(w, out, l) {
                return;
            }
        }
    }
    let _ = run_label(w, out, vec![L_MARK, 3, 0, 0, 0]);
}

fn cleanup(w: World) {
    // every task must be finished, otherwise its thread would leak
    let mut guard = 0;
    while let Some(l) = w.drain_label() {
        let mut w2 = &w;
        let _ = &mut w2;
        match l[0] {
            L_STEP => {
                let _ = w.sched.resume(l[1] as usize, Cmd::Run);
            }
            L_ENV => {
                let _ = w.sched.resume(l[1] as usize, Cmd::Env(0));
            }
            _ => {
                let _ = w.sched.resume(l[1] as usize, Cmd::Cancel);
            }
        }
        guard += 1;
        if guard > 5000 {
            break;
        }
    }
    w.held.lock().unwrap().clear();
    w.taken.lock().unwrap().clear();
}

/// run task t alone to its end; gates answer Ok, except with the given percentage Err
fn run_task(w: &mut World, out: &mut TraceOut, r: &mut Rng, t: i64, err_percent: u64) -> bool {
    loop {
        let l = match w.sched.state(t as usize) {
            Yield::Done(_) => return true,
            Yield::Gate { .. } => vec![L_ENV, t, if r.chance(err_percent) { 1 } else { 0 }, 0, 0],
            Yield::Sem => return true,
            _ => vec![L_STEP, t, 0, 0, 0],
        };
        if !run_label(w, out, l) {
            return false;
        }
    }
}

/// like run_task, but the first `nrej` gates are answered with an error (each rejects one idle object
/// when it is the first step of that object's check), the following ones with Ok
fn run_task_rejecting(w: &mut World, out: &mut TraceOut, t: i64, mut nrej: usize) -> bool {
    loop {
        let l = match w.sched.state(t as usize) {
            Yield::Done(_) => return true,
            Yield::Gate { .. } => {
                let o = if nrej > 0 { 1 } else { 0 };
                nrej = nrej.saturating_sub(1);
                vec![L_ENV, t, o, 0, 0]
            }
            Yield::Sem => return true,
            _ => vec![L_STEP, t, 0, 0, 0],
        };
        if !run_label(w, out, l) {
            return false;
        }
    }
}

/// fill the pool, return the objects in a random order, retain a random subset, reuse
fn gen_order_trace(g: &mut Gen) -> TraceOut {
    let r = &mut g.rng;
    let n = 3 + r.below(3) as usize;
    let hooks = |r: &mut Rng| -> Vec<bool> { (0..r.below(2)).map(|_| r.chance(50)).collect() };
    let cfg = Cfg { max: n, lifo: r.chance(50), pre: hooks(r), post: hooks(r), pc: vec![] };
    let mut w = World::new(cfg.clone());
    let mut out = TraceOut { cfg, labels: vec![], obs: vec![], err: None };
    let mut ok = true;
    for _ in 0..n {
        let t = w.sched.ntasks() as i64;
        ok = ok && run_label(&mut w, &mut out, vec![L_START, t, OP_GET, 0, 0]) && run_task(&mut w, &mut out, r, t, 0);
    }
    // a second round of use so that recycle counts differ
    let mut rounds = 1 + r.below(2);
    while ok && rounds > 0 {
        rounds -= 1;
        let mut ids: Vec<usize> = w.held.lock().unwrap().keys().cloned().collect();
        while ok && !ids.is_empty() {
            let o = ids.swap_remove(r.below(ids.len() as u64) as usize) as i64;
            let t = w.sched.ntasks() as i64;
            ok = run_label(&mut w, &mut out, vec![L_START, t, OP_DROP, o, 0]) && run_task(&mut w, &mut out, r, t, 0);
        }
        if ok && r.chance(70) {
            let nb = n as i64;
            let mask = r.below(1 << nb) as i64;
            let t = w.sched.ntasks() as i64;
            ok = run_label(&mut w, &mut out, vec![L_START, t, OP_RETAIN, mask, nb]) && run_task(&mut w, &mut out, r, t, 0);
        }
        if ok && r.chance(45) {
            // a resize over the idle queue: mostly a shrink that keeps two or more idle objects
            let target = if r.chance(80) { 2 + r.below(n as u64 - 1) as i64 } else { n as i64 + 1 };
            let t = w.sched.ntasks() as i64;
            ok = run_label(&mut w, &mut out, vec![L_START, t, OP_RESIZE, target, 0]) && run_task(&mut w, &mut out, r, t, 0);
        }
        if ok && r.chance(35) {
            // one get that has several idle objects rejected in a row before it is served
            let nrej = 1 + r.below(n as u64) as usize;
            let t = w.sched.ntasks() as i64;
            ok = run_label(&mut w, &mut out, vec![L_START, t, OP_GET, 1, 0]) && run_task_rejecting(&mut w, &mut out, t, nrej);
        }
        let k = 1 + r.below(n as u64);
        for _ in 0..k {
            if !ok {
                break;
            }
            let t = w.sched.ntasks() as i64;
            ok = run_label(&mut w, &mut out, vec![L_START, t, OP_GET, 1, 0]) && run_task(&mut w, &mut out, r, t, 15);
        }
    }
    if out.err.is_none() {
        finish(&mut w, &mut out, true, false);
    }
    cleanup(w);
    out
}

/// a small pool whose objects are reused several dozen times (what only shows on the n-th reuse)
fn gen_long_trace(g: &mut Gen) -> TraceOut {
    let r = &mut g.rng;
    let n = 1 + r.below(2) as usize;
    let hooks = |r: &mut Rng| -> Vec<bool> { (0..r.below(2)).map(|_| r.chance(50)).collect() };
    let cfg = Cfg { max: n, lifo: r.chance(50), pre: hooks(r), post: hooks(r), pc: hooks(r) };
    let mut w = World::new(cfg.clone());
    let mut out = TraceOut { cfg, labels: vec![], obs: vec![], err: None };
    let mut ok = true;
    let cycles = 36 + r.below(12);
    for c in 0..cycles {
        if !ok {
            break;
        }
        let held: Vec<usize> = w.held.lock().unwrap().keys().cloned().collect();
        let t = w.sched.ntasks() as i64;
        if held.len() < n && (held.is_empty() || r.chance(60)) {
            ok = run_label(&mut w, &mut out, vec![L_START, t, OP_GET, 1, 0]) && run_task(&mut w, &mut out, r, t, 4);
        } else if !held.is_empty() {
            let o = held[r.below(held.len() as u64) as usize] as i64;
            let op = if c % 17 == 16 { OP_TAKE } else { OP_DROP };
            ok = run_label(&mut w, &mut out, vec![L_START, t, op, o, 0]) && run_task(&mut w, &mut out, r, t, 0);
        }
        if ok && c % 11 == 10 {
            let t = w.sched.ntasks() as i64;
            ok = run_label(&mut w, &mut out, vec![L_START, t, OP_STATUS, 0, 0]) && run_task(&mut w, &mut out, r, t, 0);
        }
    }
    if out.err.is_none() {
        finish(&mut w, &mut out, true, false);
    }
    cleanup(w);
    out
}

// ---------------------------------------------------------------- sequential exploration
/// one operation of the sequential alphabet, run to completion (manager and hooks answer Ok unless said)
#[derive(Clone, Copy, Debug, PartialEq)]
enum SeqOp {
    Get,         // non-blocking get
    GetWait,     // blocking get: parks when no slot is free (and is completed by a later operation)
    CancelWait,  // the oldest parked get is abandoned
    GetReject,   // non-blocking get whose first idle object is rejected
    GetCancel1,  // non-blocking get abandoned at its first await point (future dropped; a panic where that is impossible)
    GetCancel2,  // ... at its second await point (the first one answered Ok)
    GetPanic1,   // the manager / hook panics at the first await point
    GetFail2,    // the second step fails (after the first succeeded)
    DropLow,     // return the held object with the lowest id
    DropHigh,    // ... the highest id
    Take,        // Object::take of the lowest
    Resize(i64),
    RetainNone,  // retain(|_| false)
    RetainTail,  // retain that removes the first idle object only
    Close,
    Status,
}

const SEQ_ALPHABET: [SeqOp; 20] = [
    SeqOp::Get,
    SeqOp::GetWait,
    SeqOp::CancelWait,
    SeqOp::GetReject,
    SeqOp::GetCancel1,
    SeqOp::GetCancel2,
    SeqOp::GetPanic1,
    SeqOp::GetFail2,
    SeqOp::DropLow,
    SeqOp::DropHigh,
    SeqOp::Take,
    SeqOp::Resize(0),
    SeqOp::Resize(1),
    SeqOp::Resize(2),
    SeqOp::Resize(3),
    SeqOp::RetainNone,
    SeqOp::RetainTail,
    SeqOp::Close,
    SeqOp::Status,
    SeqOp::Get,
];

/// everything that can run without outside help runs to its end (manager and hooks answer Ok); parked
/// gets that were not given a permit stay parked
fn seq_settle(w: &mut World, out: &mut TraceOut) -> bool {
    for _ in 0..400 {
        let mut next: Option<Vec<i64>> = None;
        for (t, y) in w.sched.states().iter().enumerate() {
            let t = t as i64;
            match y {
                Yield::Done(_) => {}
                Yield::Start | Yield::Point(_) => next = Some(vec![L_STEP, t, 0, 0, 0]),
                Yield::Gate { .. } => next = Some(vec![L_ENV, t, 0, 0, 0]),
                Yield::Sem => {
                    if w.sched.woken(t as usize) || w.pool.lock().unwrap().as_ref().map(|p| p.verif_snapshot().closed).unwrap_or(false) {
                        next = Some(vec![L_STEP, t, 0, 0, 0]);
                    }
                }
            }
            if next.is_some() {
                break;
            }
        }
        match next {
            Some(l) => {
                if !run_label(w, out, l) {
                    return false;
                }
            }
            None => return true,
        }
    }
    false
}

/// a non-blocking get whose k-th await point (gate) is answered as scripted: 0 Ok, 1 Err, 2 panic, 3 the future
/// is dropped there (a panic where the await point cannot be cancelled: a sync hook); later gates Ok
fn seq_get_scripted(w: &mut World, out: &mut TraceOut, t: i64, script: &[i64]) -> bool {
    let mut gate = 0usize;
    for _ in 0..200 {
        let l = match w.sched.state(t as usize) {
            Yield::Done(_) | Yield::Sem => return true,
            Yield::Gate { .. } => {
                let a = script.get(gate).copied().unwrap_or(0);
                gate += 1;
                match a {
                    3 => {
                        let c = vec![L_CANCEL, t, 0, 0, 0];
                        if w.enabled(&c) {
                            c
                        } else {
                            vec![L_ENV, t, 2, 0, 0]
                        }
                    }
                    a => vec![L_ENV, t, a, 0, 0],
                }
            }
            _ => vec![L_STEP, t, 0, 0, 0],
        };
        if !run_label(w, out, l) {
            return false;
        }
    }
    false
}

fn seq_parked(w: &World) -> Vec<usize> {
    w.sched.states().iter().enumerate().filter(|(t, y)| matches!(y, Yield::Sem) && !w.sched.woken(*t)).map(|(t, _)| t).collect()
}

/// applies the operation; false = not applicable in this state (nothing was done)
fn seq_apply(w: &mut World, out: &mut TraceOut, r: &mut Rng, op: SeqOp) -> bool {
    seq_apply0(w, out, r, op) && seq_settle(w, out)
}

fn seq_apply0(w: &mut World, out: &mut TraceOut, r: &mut Rng, op: SeqOp) -> bool {
    let snap = w.pool.lock().unwrap().as_ref().unwrap().verif_snapshot();
    let held: Vec<usize> = w.held.lock().unwrap().keys().cloned().collect();
    let t = w.sched.ntasks() as i64;
    match op {
        SeqOp::Get => run_label(w, out, vec![L_START, t, OP_GET, 1, 0]) && run_task(w, out, r, t, 0),
        SeqOp::GetCancel1 | SeqOp::GetCancel2 | SeqOp::GetPanic1 | SeqOp::GetFail2 => {
            let script: &[i64] = match op {
                SeqOp::GetCancel1 => &[3],
                SeqOp::GetCancel2 => &[0, 3],
                SeqOp::GetPanic1 => &[2],
                _ => &[0, 1],
            };
            !snap.closed && run_label(w, out, vec![L_START, t, OP_GET, 1, 0]) && seq_get_scripted(w, out, t, script)
        }
        SeqOp::GetWait => {
            seq_parked(w).len() < 2 && !snap.closed && run_label(w, out, vec![L_START, t, OP_GET, 0, 0]) && run_task(w, out, r, t, 0)
        }
        SeqOp::CancelWait => match seq_parked(w).first() {
            Some(p) => run_label(w, out, vec![L_CANCEL, *p as i64, 0, 0, 0]),
            None => false,
        },
        SeqOp::GetReject => {
            snap.idle_len > 0 && !snap.closed && run_label(w, out, vec![L_START, t, OP_GET, 1, 0]) && run_task_rejecting(w, out, t, 1)
        }
        SeqOp::DropLow | SeqOp::DropHigh | SeqOp::Take => {
            if held.is_empty() || (op == SeqOp::DropHigh && held.len() < 2) {
                return false;
            }
            let o = if op == SeqOp::DropHigh { held[held.len() - 1] } else { held[0] } as i64;
            let k = if op == SeqOp::Take { OP_TAKE } else { OP_DROP };
            run_label(w, out, vec![L_START, t, k, o, 0]) && run_task(w, out, r, t, 0)
        }
        SeqOp::Resize(n) => {
            n as usize != snap.max_size && run_label(w, out, vec![L_START, t, OP_RESIZE, n, 0]) && run_task(w, out, r, t, 0)
        }
        SeqOp::RetainNone | SeqOp::RetainTail => {
            if snap.idle_len == 0 || (op == SeqOp::RetainTail && snap.idle_len < 2) {
                return false;
            }
            let nb = snap.idle_len.min(4) as i64;
            let mask = if op == SeqOp::RetainNone { 0 } else { (1i64 << nb) - 2 };
            run_label(w, out, vec![L_START, t, OP_RETAIN, mask, nb]) && run_task(w, out, r, t, 0)
        }
        SeqOp::Close => !snap.closed && run_label(w, out, vec![L_START, t, OP_CLOSE, 0, 0]) && run_task(w, out, r, t, 0),
        SeqOp::Status => run_label(w, out, vec![L_START, t, OP_STATUS, 0, 0]) && run_task(w, out, r, t, 0),
    }
}

/// what distinguishes two pool states for the exploration (identities are abstracted away)
fn seq_key(w: &World) -> Vec<i64> {
    let p = w.pool.lock().unwrap();
    let p = p.as_ref().unwrap();
    let s = p.verif_snapshot();
    let mut k = vec![s.permits as i64, s.closed as i64, s.size as i64, s.max_size as i64, s.users as i64, s.debt as i64];
    k.push(w.held.lock().unwrap().len() as i64);
    k.push(seq_parked(w).len() as i64);
    let mut idle = vec![];
    p.verif_visit_idle(|_, m| idle.push(m.recycle_count.min(2) as i64));
    k.push(idle.len() as i64);
    k.extend(idle);
    k
}

/// breadth-first over operation sequences, pruned by the abstract pool state; one trace per edge (the
/// path, the new operation, the usual drain and capacity probe). Returns the number of traces printed.
fn explore_seq(max0: usize, hooks: usize, max_depth: usize, max_edges: usize, stride: usize) -> usize {
    use std::collections::{HashSet, VecDeque};
    let cfg = Cfg {
        max: max0,
        lifo: hooks % 2 == 1,
        pre: vec![false; hooks.min(1)],
        post: vec![true; hooks.min(1)],
        pc: vec![],
    };
    let mut seen: HashSet<Vec<i64>> = HashSet::new();
    let mut queue: VecDeque<Vec<SeqOp>> = VecDeque::new();
    queue.push_back(vec![]);
    let mut edges = 0usize;
    let mut printed = 0usize;
    while let Some(path) = queue.pop_front() {
        for (oi, op) in SEQ_ALPHABET.iter().enumerate() {
            if oi == SEQ_ALPHABET.len() - 1 {
                continue; // the alphabet lists Get twice for the random sampler only
            }
            if edges >= max_edges {
                return printed;
            }
            let mut w = World::new(cfg.clone());
            let mut out = TraceOut { cfg: cfg.clone(), labels: vec![], obs: vec![], err: None };
            let mut r = Rng::new(1);
            let mut ok = true;
            for p in &path {
                ok = ok && seq_apply(&mut w, &mut out, &mut r, *p);
            }
            let applied = ok && seq_apply(&mut w, &mut out, &mut r, *op);
            if !applied || out.err.is_some() {
                if out.err.is_some() {
                    print_trace(printed, &out);
                    printed += 1;
                }
                cleanup(w);
                continue;
            }
            edges += 1;
            let key = seq_key(&w);
            let fresh = seen.insert(key);
            if fresh && path.len() + 1 < max_depth {
                let mut np = path.clone();
                np.push(*op);
                queue.push_back(np);
            }
            if edges % stride.max(1) == 0 {
                finish(&mut w, &mut out, true, false);
                print_trace(printed, &out);
                printed += 1;
            }
            cleanup(w);
        }
    }
    printed
}

fn gen_trace(g: &mut Gen) -> TraceOut {
    if g.profile == Profile::Order {
        return gen_order_trace(g);
    }
    if g.profile == Profile::Long {
        return gen_long_trace(g);
    }
    let cfg = g.gen_cfg();
    let mut w = World::new(cfg.clone());
    let mut out = TraceOut {
        cfg,
        labels: vec![],
        obs: vec![],
        err: None,
    };
    // the number of operations of a history; long histories (max_labels > 200) get more of them
    let cap = if g.max_labels > 200 { 30 + g.rng.below(40) as usize } else { 10 + g.rng.below(22) as usize };
    let nlabels = 10 + g.rng.below(g.max_labels as u64 - 9) as usize;
    for k in 0..nlabels {
        match g.choose(&w, cap, (100 * k / nlabels) as u64) {
            Some(l) => {
                if !run_label(&mut w, &mut out, l) {
                    break;
                }
            }
            None => break,
        }
    }
    if out.err.is_none() {
        let orphan = g.rng.chance(12);
        finish(&mut w, &mut out, true, orphan);
    }
    cleanup(w);
    out
}

fn replay_trace(cfg: Cfg, labels: &[Vec<i64>]) -> TraceOut {
    let mut w = World::new(cfg.clone());
    let mut out = TraceOut {
        cfg,
        labels: vec![],
        obs: vec![],
        err: None,
    };
    for l in labels {
        let mut l = l.clone();
        l.resize(5, 0);
        if !run_label(&mut w, &mut out, l) {
            break;
        }
    }
    cleanup(w);
    out
}

// ---------------------------------------------------------------- bounded-exhaustive exploration
/// All thread-level schedules of a small scripted scenario: the operations of `script` are
/// started in order (at any time), every started task may take any enabled step, every gate may
/// answer Ok or Err, every cancellable wait may be cancelled. The exploration is stateless (each
/// prefix is re-executed on a fresh pool) and prunes prefixes that reach an already seen state.
/// Prints one trace per explored edge.
fn explore(cfg: &Cfg, script: &[Vec<i64>], max_depth: usize, max_edges: usize) -> usize {
    use std::collections::HashSet;
    let mut seen: HashSet<Vec<i64>> = HashSet::new();
    let mut stack: Vec<Vec<Vec<i64>>> = vec![vec![]];
    let mut edges = 0;
    while let Some(prefix) = stack.pop() {
        // re-execute the prefix
        let mut w = World::new(cfg.clone());
        let mut pos = 0;
        for l in &prefix {
            if l[0] == L_START {
                pos += 1;
            }
            w.apply(l);
        }
        let key = w.state_key(pos);
        let fresh = seen.insert(key);
        let mut cands: Vec<Vec<i64>> = vec![];
        if fresh && prefix.len() < max_depth {
            for (t, y) in w.sched.states().iter().enumerate() {
                let ti = t as i64;
                match y {
                    Yield::Done(_) => {}
                    Yield::Start | Yield::Point(_) => cands.push(vec![L_STEP, ti, 0, 0, 0]),
                    Yield::Gate { sync, .. } => {
                        cands.push(vec![L_ENV, ti, 0, 0, 0]);
                        cands.push(vec![L_ENV, ti, 1, 0, 0]);
                        if !sync {
                            cands.push(vec![L_CANCEL, ti, 0, 0, 0]);
                        }
                    }
                    Yield::Sem => {
                        cands.push(vec![L_STEP, ti, 0, 0, 0]);
                        cands.push(vec![L_CANCEL, ti, 0, 0, 0]);
                    }
                }
            }
            if pos < script.len() {
                let mut l = script[pos].clone();
                l[1] = w.sched.ntasks() as i64;
                if w.enabled(&l) {
                    cands.push(l);
                }
            }
        }
        cleanup(w);
        for c in cands {
            let mut tr = prefix.clone();
            tr.push(c);
            // print the edge as a trace of its own
            let t = replay_trace(cfg.clone(), &tr);
            print_trace(edges, &t);
            edges += 1;
            if edges >= max_edges {
                return edges;
            }
            stack.push(tr);
        }
    }
    edges
}

fn scenarios() -> Vec<(Cfg, Vec<Vec<i64>>)> {
    let c = |max: usize, lifo: bool, pre: Vec<bool>, post: Vec<bool>, pc: Vec<bool>| Cfg { max, lifo, pre, post, pc };
    let get = |tk: i64| vec![L_START, 0, OP_GET, tk, 0];
    let op = |k: i64, a: i64, b: i64| vec![L_START, 0, k, a, b];
    vec![
        // two getters on one slot, the first object is returned
        (c(1, false, vec![], vec![], vec![]), vec![get(0), get(0), op(OP_DROP, 0, 0)]),
        // return racing close, then a late get
        (c(1, false, vec![], vec![], vec![]), vec![get(0), op(OP_DROP, 0, 0), op(OP_CLOSE, 0, 0), get(1)]),
        // shrink while an object is out, return, get
        (c(2, false, vec![], vec![], vec![]), vec![get(1), get(1), op(OP_RESIZE, 1, 0), op(OP_DROP, 0, 0), get(1)]),
        // recycle with an async pre hook racing retain
        (c(1, true, vec![true], vec![], vec![]), vec![get(0), op(OP_DROP, 0, 0), get(0), op(OP_RETAIN, 0, 1)]),
        // take racing a waiting get and status
        (c(1, false, vec![], vec![], vec![]), vec![get(0), get(0), op(OP_TAKE, 0, 0), op(OP_STATUS, 0, 0)]),
        // grow wakes a waiter, shrink again
        (c(1, false, vec![], vec![], vec![true]), vec![get(0), get(0), op(OP_RESIZE, 2, 0), op(OP_RESIZE, 0, 0)]),
    ]
}

// ---------------------------------------------------------------- free-running races
/// Pairs of operations on real, unsynchronised threads (no baton, no schedule points needed):
/// a search aid for race windows that contain no schedule point. Each scenario states the
/// property's own at-rest clause as its post-condition. Not deterministic; a failure is
/// reported with the scenario and the observed final state.
fn stress(iter: usize) {
    use std::sync::atomic::AtomicI64;
    struct CObj(Arc<AtomicI64>, Arc<AtomicI64>);
    static SLOW_DROP: std::sync::atomic::AtomicBool = std::sync::atomic::AtomicBool::new(false);
    impl Drop for CObj {
        fn drop(&mut self) {
            if SLOW_DROP.load(Ordering::Relaxed) {
                for _ in 0..300 {
                    std::hint::spin_loop();
                }
            }
            let _ = self.0.fetch_sub(1, Ordering::SeqCst);
        }
    }
    struct CMgr {
        live: Arc<AtomicI64>,
        peak: Arc<AtomicI64>,
    }
    impl managed::Manager for CMgr {
        type Type = CObj;
        type Error = ();
        async fn create(&self) -> Result<CObj, ()> {
            let n = self.live.fetch_add(1, Ordering::SeqCst) + 1;
            let _ = self.peak.fetch_max(n, Ordering::SeqCst);
            Ok(CObj(self.live.clone(), self.peak.clone()))
        }
        async fn recycle(&self, _: &mut CObj, _: &Metrics) -> RecycleResult<()> {
            Ok(())
        }
    }
    type CPool = managed::Pool<CMgr>;
    fn ready<F: std::future::Future>(f: F) -> Option<F::Output> {
        use std::task::{Context, Poll, Wake, Waker};
        struct W;
        impl Wake for W {
            fn wake(self: Arc<Self>) {}
        }
        let w = Waker::from(Arc::new(W));
        let mut cx = Context::from_waker(&w);
        let mut f = Box::pin(f);
        match f.as_mut().poll(&mut cx) {
            Poll::Ready(v) => Some(v),
            Poll::Pending => None,
        }
    }
    let nb = Timeouts { wait: Some(Duration::ZERO), create: None, recycle: None };
    let mk = |max: usize| -> (CPool, Arc<AtomicI64>, Arc<AtomicI64>) {
        let live = Arc::new(AtomicI64::new(0));
        let peak = Arc::new(AtomicI64::new(0));
        let p = CPool::builder(CMgr { live: live.clone(), peak: peak.clone() }).max_size(max).build().unwrap();
        (p, live, peak)
    };
    let mut fails: Vec<String> = vec![];
    let mut runs = 0usize;
    // a persistent partner thread and spin hand-shakes: ~10^5 trials per second
    use std::sync::atomic::AtomicUsize as AU;
    type Job = Box<dyn FnOnce() + Send>;
    let slot: Arc<Mutex<Option<Job>>> = Arc::new(Mutex::new(None));
    let go = Arc::new(AU::new(0));
    let done = Arc::new(AU::new(0));
    let stop = Arc::new(std::sync::atomic::AtomicBool::new(false));
    let panicked = Arc::new(std::sync::atomic::AtomicBool::new(false));
    let partner = {
        let (slot, go, done, stop, panicked) = (slot.clone(), go.clone(), done.clone(), stop.clone(), panicked.clone());
        std::thread::spawn(move || {
            let mut seen = 0;
            loop {
                while go.load(Ordering::Acquire) == seen {
                    if stop.load(Ordering::Relaxed) {
                        return;
                    }
                    std::hint::spin_loop();
                }
                seen += 1;
                let job = slot.lock().unwrap().take().unwrap();
                if std::panic::catch_unwind(std::panic::AssertUnwindSafe(job)).is_err() {
                    panicked.store(true, Ordering::SeqCst);
                }
                done.store(seen, Ordering::Release);
            }
        })
    };
    let mut trial = 0usize;
    let mut race = |a: Job, jitter: usize, b: &mut dyn FnMut()| {
        *slot.lock().unwrap() = Some(a);
        trial += 1;
        go.store(trial, Ordering::Release);
        for _ in 0..jitter {
            std::hint::spin_loop();
        }
        b();
        while done.load(Ordering::Acquire) != trial {
            std::hint::spin_loop();
        }
    };
    for i in 0..iter {
        // S1: resize(k) races close()
        {
            let (p, _, _) = mk(1);
            let p1 = p.clone();
            let k = 2 + i % 4;
            race(Box::new(move || p1.resize(k)), i % 41, &mut || p.close());
            let st = p.status();
            runs += 1;
            if !p.is_closed() || st.max_size != 0 {
                fails.push(format!("C06 resize({}) racing close(): closed={} status={:?}", k, p.is_closed(), st));
            }
        }
        // S2: return of an object races close()
        {
            let (p, live, _) = mk(1);
            let o = ready(p.timeout_get(&nb)).unwrap().unwrap();
            race(Box::new(move || drop(o)), i % 37, &mut || p.close());
            let st = p.status();
            runs += 1;
            if st.size != 0 || st.available != 0 || live.load(Ordering::SeqCst) != 0 {
                fails.push(format!("C06 return racing close(): status={:?} live objects={}", st, live.load(Ordering::SeqCst)));
            }
        }
        // S3: retain() with a slow predicate races a get on a full idle pool
        if i % 8 == 0 {
            let (p, _, peak) = mk(1);
            drop(ready(p.timeout_get(&nb)).unwrap().unwrap());
            let p1 = p.clone();
            let mut g = None;
            race(
                Box::new(move || {
                    let _ = p1.retain(|_, _| {
                        for _ in 0..200 {
                            std::hint::spin_loop();
                        }
                        true
                    });
                }),
                i % 50,
                &mut || g = ready(p.timeout_get(&nb)),
            );
            runs += 1;
            if peak.load(Ordering::SeqCst) > 1 {
                fails.push(format!("C01 get racing retain(): {} objects existed, max_size 1", peak.load(Ordering::SeqCst)));
            }
            drop(g);
        }
        // S4: shrink races a non-blocking get; afterwards the capacity must be the new limit
        {
            let (p, _, _) = mk(2);
            let p1 = p.clone();
            let mut g = None;
            race(Box::new(move || p1.resize(0)), i % 29, &mut || g = ready(p.timeout_get(&nb)));
            drop(g);
            let again = ready(p.timeout_get(&nb));
            runs += 1;
            if let Some(Ok(_)) = again {
                fails.push(format!("C07 resize(0) racing get: a get succeeded afterwards, status={:?}", p.status()));
            }
        }
        // S5: two gets race on a pool that still owes one permit to an earlier shrink
        {
            let (p, _, _) = mk(2);
            let a = ready(p.timeout_get(&nb)).unwrap().unwrap();
            let b = ready(p.timeout_get(&nb)).unwrap().unwrap();
            p.resize(1);
            drop(a);
            drop(b);
            let p1 = p.clone();
            let got: Arc<Mutex<Vec<Object<CMgr>>>> = Arc::new(Mutex::new(vec![]));
            let got1 = got.clone();
            let mut g = None;
            let main_panicked = std::panic::catch_unwind(std::panic::AssertUnwindSafe(|| {
                race(
                    Box::new(move || {
                        if let Some(Ok(o)) = ready(p1.timeout_get(&Timeouts { wait: Some(Duration::ZERO), create: None, recycle: None })) {
                            got1.lock().unwrap().push(o);
                        }
                    }),
                    i % 23,
                    &mut || g = ready(p.timeout_get(&nb)),
                );
            }))
            .is_err();
            runs += 1;
            let n_ok = got.lock().unwrap().len() + matches!(g, Some(Ok(_))) as usize;
            if main_panicked || panicked.swap(false, Ordering::SeqCst) {
                fails.push("C02 get() panicked while settling the debt of an earlier shrink (two gets racing)".to_string());
            } else if n_ok > 1 {
                fails.push(format!("C07 after resize(1): {} racing gets succeeded at once", n_ok));
            } else {
                drop(g);
                got.lock().unwrap().clear();
                let one = ready(p.timeout_get(&nb));
                let two = ready(p.timeout_get(&nb));
                if !matches!(one, Some(Ok(_))) || matches!(two, Some(Ok(_))) {
                    fails.push(format!("C02 capacity after shrink + two racing gets: max_size 1, status {:?}", p.status()));
                }
            }
        }
        // S6: close() races close() while idle objects (slow to drop) exist: whichever call returns, returns
        // to a pool without idle objects
        if i % 4 == 0 {
            let (p, live, _) = mk(4);
            let held: Vec<_> = (0..4).map(|_| ready(p.timeout_get(&nb)).unwrap().unwrap()).collect();
            drop(held);
            SLOW_DROP.store(true, Ordering::Relaxed);
            let p1 = p.clone();
            let live1 = live.clone();
            let seen_a = Arc::new(AtomicI64::new(0));
            let seen_a1 = seen_a.clone();
            let mut seen_b = 0;
            race(
                Box::new(move || {
                    p1.close();
                    seen_a1.store(live1.load(Ordering::SeqCst), Ordering::SeqCst);
                }),
                i % 43,
                &mut || {
                    p.close();
                    seen_b = live.load(Ordering::SeqCst);
                },
            );
            SLOW_DROP.store(false, Ordering::Relaxed);
            runs += 1;
            let worst = seen_a.load(Ordering::SeqCst).max(seen_b);
            if worst != 0 {
                fails.push(format!("C06 close() racing close(): a close() returned while {} idle objects were still alive", worst));
            }
        }
        if fails.len() >= 5 {
            break;
        }
    }
    stop.store(true, Ordering::Relaxed);
    let _ = partner.join();
    let mut s = String::new();
    let _ = write!(s, "{{\"runs\":{},\"fails\":[", runs);
    for (i, f) in fails.iter().enumerate() {
        if i > 0 {
            s.push(',');
        }
        let _ = write!(s, "\"{}\"", f.replace('"', "'"));
    }
    s.push_str("]}");
    println!("{}", s);
}

/// Generic free-running races: a random reachable state is built sequentially, then two real
/// threads each perform a random operation at the same time, then the at-rest clauses of the
/// properties are checked through the public API with an independent object count:
/// status() exact (C11), live <= max_size without resize (C01), capacity = max_size after
/// everything returned / Closed after close (C02, C06, C07), detach discipline (C09).
fn stress2(seed: u64, iter: usize) {
    use std::sync::atomic::{AtomicBool, AtomicI64, AtomicUsize as AU};
    struct Shared2 {
        live: AtomicI64,
        peak: AtomicI64,
        detached: Mutex<BTreeMap<usize, u32>>,
        next: AU,
        fail_recycle: AtomicBool,
    }
    struct O2(usize, Arc<Shared2>);
    impl Drop for O2 {
        fn drop(&mut self) {
            let _ = self.1.live.fetch_sub(1, Ordering::SeqCst);
        }
    }
    struct M2(Arc<Shared2>);
    impl managed::Manager for M2 {
        type Type = O2;
        type Error = ();
        async fn create(&self) -> Result<O2, ()> {
            let n = self.0.live.fetch_add(1, Ordering::SeqCst) + 1;
            let _ = self.0.peak.fetch_max(n, Ordering::SeqCst);
            Ok(O2(self.0.next.fetch_add(1, Ordering::SeqCst), self.0.clone()))
        }
        async fn recycle(&self, _: &mut O2, _: &Metrics) -> RecycleResult<()> {
            if self.0.fail_recycle.load(Ordering::Relaxed) {
                Err(RecycleError::message("scripted"))
            } else {
                Ok(())
            }
        }
        fn detach(&self, o: &mut O2) {
            *self.0.detached.lock().unwrap().entry(o.0).or_insert(0) += 1;
        }
    }
    type P2 = managed::Pool<M2>;
    fn ready<F: std::future::Future>(f: F) -> Option<F::Output> {
        use std::task::{Context, Poll, Wake, Waker};
        struct W;
        impl Wake for W {
            fn wake(self: Arc<Self>) {}
        }
        let w = Waker::from(Arc::new(W));
        let mut cx = Context::from_waker(&w);
        let mut f = Box::pin(f);
        match f.as_mut().poll(&mut cx) {
            Poll::Ready(v) => Some(v),
            Poll::Pending => None,
        }
    }
    let nb = Timeouts { wait: Some(Duration::ZERO), create: None, recycle: None };
    type Job = Box<dyn FnOnce() + Send>;
    let slot: Arc<Mutex<Option<Job>>> = Arc::new(Mutex::new(None));
    let go = Arc::new(AU::new(0));
    let done = Arc::new(AU::new(0));
    let stop = Arc::new(AtomicBool::new(false));
    let panicked = Arc::new(AtomicBool::new(false));
    let partner = {
        let (slot, go, done, stop, panicked) = (slot.clone(), go.clone(), done.clone(), stop.clone(), panicked.clone());
        std::thread::spawn(move || {
            let mut seen = 0;
            loop {
                while go.load(Ordering::Acquire) == seen {
                    if stop.load(Ordering::Relaxed) {
                        return;
                    }
                    std::hint::spin_loop();
                }
                seen += 1;
                let job = slot.lock().unwrap().take().unwrap();
                if std::panic::catch_unwind(std::panic::AssertUnwindSafe(job)).is_err() {
                    panicked.store(true, Ordering::SeqCst);
                }
                done.store(seen, Ordering::Release);
            }
        })
    };
    // one operation, performed on whichever thread; objects obtained / given up go through `bag`
    #[derive(Clone, Copy, Debug)]
    enum Op {
        Get,
        Drop,
        Take,
        Resize(usize),
        Close,
        Retain(u64),
        Status,
    }
    type Bag = Arc<Mutex<Vec<Object<M2>>>>;
    fn perform(p: &P2, op: Op, bag: &Bag, taken: &Arc<Mutex<Vec<O2>>>, nb: &Timeouts) {
        match op {
            Op::Get => {
                if let Some(Ok(o)) = ready(p.timeout_get(nb)) {
                    bag.lock().unwrap().push(o);
                }
            }
            Op::Drop => {
                let o = bag.lock().unwrap().pop();
                drop(o);
            }
            Op::Take => {
                let o = bag.lock().unwrap().pop();
                if let Some(o) = o {
                    taken.lock().unwrap().push(Object::take(o));
                }
            }
            Op::Resize(n) => p.resize(n),
            Op::Close => p.close(),
            Op::Retain(mask) => {
                let mut i = 0;
                let r = p.retain(|_, _| {
                    i += 1;
                    (mask >> (i - 1)) & 1 == 1
                });
                taken.lock().unwrap().extend(r.removed);
            }
            Op::Status => {
                let _ = p.status();
            }
        }
    }
    let mut rng = Rng::new(seed);
    let mut fails: Vec<String> = vec![];
    let mut runs = 0usize;
    let mut trial = 0usize;
    for _ in 0..iter {
        let sh = Arc::new(Shared2 {
            live: AtomicI64::new(0),
            peak: AtomicI64::new(0),
            detached: Mutex::new(BTreeMap::new()),
            next: AU::new(0),
            fail_recycle: AtomicBool::new(false),
        });
        let max = 1 + rng.below(3) as usize;
        let p: P2 = P2::builder(M2(sh.clone())).max_size(max).build().unwrap();
        let bag_a: Bag = Arc::new(Mutex::new(vec![]));
        let bag_b: Bag = Arc::new(Mutex::new(vec![]));
        let taken: Arc<Mutex<Vec<O2>>> = Arc::new(Mutex::new(vec![]));
        let mut script: Vec<String> = vec![format!("max_size {}", max)];
        let mut prefix_resized = false;
        // sequential prefix
        for _ in 0..rng.below(6) {
            let op = match rng.below(12) {
                0..=4 => Op::Get,
                5..=7 => Op::Drop,
                8 => Op::Take,
                9 => Op::Status,
                _ => {
                    prefix_resized = true;
                    Op::Resize(rng.below(4) as usize)
                }
            };
            let bag = if rng.chance(50) { &bag_a } else { &bag_b };
            perform(&p, op, bag, &taken, &nb);
            script.push(format!("{:?}", op));
        }
        sh.fail_recycle.store(rng.chance(20), Ordering::Relaxed);
        let mut pick = |rng: &mut Rng, allow_rc: bool| match rng.below(if allow_rc { 16 } else { 12 }) {
            0..=3 => Op::Get,
            4..=6 => Op::Drop,
            7 => Op::Take,
            8..=9 => Op::Retain(rng.below(8)),
            10..=11 => Op::Status,
            12..=14 => Op::Resize(rng.below(4) as usize),
            _ => Op::Close,
        };
        let op_a = pick(&mut rng, true);
        let op_b = pick(&mut rng, !matches!(op_a, Op::Resize(_) | Op::Close));
        script.push(format!("RACE {:?} || {:?}", op_a, op_b));
        let resized = prefix_resized || matches!(op_a, Op::Resize(_) | Op::Close) || matches!(op_b, Op::Resize(_) | Op::Close);
        {
            let (p1, bag1, taken1, nb1) = (p.clone(), bag_a.clone(), taken.clone(), nb);
            *slot.lock().unwrap() = Some(Box::new(move || perform(&p1, op_a, &bag1, &taken1, &nb1)));
            trial += 1;
            go.store(trial, Ordering::Release);
            for _ in 0..rng.below(40) {
                std::hint::spin_loop();
            }
            let main_panicked = std::panic::catch_unwind(std::panic::AssertUnwindSafe(|| {
                perform(&p, op_b, &bag_b, &taken, &nb)
            }))
            .is_err();
            while done.load(Ordering::Acquire) != trial {
                std::hint::spin_loop();
            }
            if main_panicked || panicked.swap(false, Ordering::SeqCst) {
                fails.push(format!("C02 an operation panicked | history: {}", script.join("; ")));
                if fails.len() >= 5 {
                    break;
                }
                continue;
            }
        }
        runs += 1;
        sh.fail_recycle.store(false, Ordering::Relaxed);
        // ---- at rest
        let held = bag_a.lock().unwrap().len() + bag_b.lock().unwrap().len();
        let ntaken = taken.lock().unwrap().len();
        let st = p.status();
        let live = sh.live.load(Ordering::SeqCst) as usize;
        let mut bad: Option<String> = None;
        if st.size != held + st.available || live != st.size + ntaken || st.waiting != 0 {
            bad = Some(format!("C11 status at rest {:?}, held {}, objects alive {} (of which {} taken by callers)", st, held, live, ntaken));
        }
        if bad.is_none() && !resized && sh.peak.load(Ordering::SeqCst) as usize > max + ntaken {
            bad = Some(format!("C01 {} objects existed at once, max_size {}", sh.peak.load(Ordering::SeqCst), max));
        }
        if bad.is_none() {
            let d = sh.detached.lock().unwrap();
            if let Some((id, n)) = d.iter().find(|(_, n)| **n > 1) {
                bad = Some(format!("C09 object {} detached {} times", id, n));
            }
            for o in taken.lock().unwrap().iter() {
                if bad.is_none() && d.get(&o.0) != Some(&1) {
                    bad = Some(format!("C09 object {} given to the caller with {:?} detach calls", o.0, d.get(&o.0)));
                }
            }
        }
        // everything comes back; then the capacity must be exactly max_size (or Closed)
        bag_a.lock().unwrap().clear();
        bag_b.lock().unwrap().clear();
        if bad.is_none() {
            let st = p.status();
            let closed = p.is_closed();
            let mut got = vec![];
            let mut oks = 0;
            let mut last = None;
            for _ in 0..(st.max_size.min(8) + 1) {
                match ready(p.timeout_get(&nb)) {
                    Some(Ok(o)) => {
                        oks += 1;
                        got.push(o);
                    }
                    Some(Err(e)) => {
                        last = Some(format!("{:?}", e));
                        break;
                    }
                    None => {
                        last = Some("Pending".into());
                        break;
                    }
                }
            }
            if closed {
                if st.max_size != 0 || st.available != 0 || oks != 0 || last.as_deref() != Some("Closed") {
                    bad = Some(format!("C06 closed pool at rest: status {:?}, {} gets succeeded, then {:?}", st, oks, last));
                }
            } else if st.max_size <= 8 && (oks != st.max_size || last.as_deref() != Some("Timeout(Wait)")) {
                bad = Some(format!("C02 capacity at rest: max_size {}, {} gets succeeded, then {:?}", st.max_size, oks, last));
            }
        }
        if let Some(b) = bad {
            fails.push(format!("{} | history: {}", b, script.join("; ")));
            if fails.len() >= 5 {
                break;
            }
        }
    }
    stop.store(true, Ordering::Relaxed);
    let _ = partner.join();
    let mut s = String::new();
    let _ = write!(s, "{{\"runs\":{},\"fails\":[", runs);
    for (i, f) in fails.iter().enumerate() {
        if i > 0 {
            s.push(',');
        }
        let _ = write!(s, "\"{}\"", f.replace('"', "'"));
    }
    s.push_str("]}");
    println!("{}", s);
}

fn ints(v: &[i64]) -> String {
    let mut s = String::from("[");
    for (i, x) in v.iter().enumerate() {
        if i > 0 {
            s.push(',');
        }
        let _ = write!(s, "{}", x);
    }
    s.push(']');
    s
}
fn print_trace(id: usize, t: &TraceOut) {
    let mut s = String::new();
    let _ = write!(s, "{{\"id\":{},\"cfg\":{},\"labels\":[", id, ints(&t.cfg.to_ints()));
    for (i, l) in t.labels.iter().enumerate() {
        if i > 0 {
            s.push(',');
        }
        s.push_str(&ints(l));
    }
    s.push_str("],\"obs\":[");
    for (i, l) in t.obs.iter().enumerate() {
        if i > 0 {
            s.push(',');
        }
        s.push_str(&ints(l));
    }
    s.push(']');
    if let Some(e) = &t.err {
        let _ = write!(s, ",\"err\":\"{}\"", e.replace('"', "'"));
    }
    s.push('}');
    println!("{}", s);
}

/// minimal parser for the replay input: finds the integer arrays after "cfg" and "labels"
fn parse_replay_line(line: &str) -> Option<(Cfg, Vec<Vec<i64>>)> {
    fn parse_arr(s: &str) -> (Vec<i64>, usize) {
        // s starts with '[' and contains no nested arrays
        let end = s.find(']').unwrap();
        let v = s[1..end]
            .split(',')
            .filter(|x| !x.trim().is_empty())
            .map(|x| x.trim().parse::<i64>().unwrap())
            .collect();
        (v, end + 1)
    }
    let ci = line.find("\"cfg\"")?;
    let cs = &line[ci..];
    let cb = cs.find('[')?;
    let (cfg, _) = parse_arr(&cs[cb..]);
    let li = line.find("\"labels\"")?;
    let ls = &line[li..];
    let lb = ls.find('[')?;
    let mut rest = &ls[lb + 1..];
    let mut labels = vec![];
    loop {
        let r = rest.trim_start_matches([',', ' ']);
        if r.starts_with('[') {
            let (v, n) = parse_arr(r);
            labels.push(v);
            rest = &r[n..];
        } else {
            break;
        }
    }
    Some((Cfg::from_ints(&cfg), labels))
}

fn main() {
    std::panic::set_hook(Box::new(|info| {
        if std::thread::current().name() == Some("main") {
            eprintln!("harness panic: {}", info);
        }
    }));
    let args: Vec<String> = std::env::args().collect();
    match args.get(1).map(|s| s.as_str()) {
        Some("gen") => {
            let seed: u64 = args[2].parse().unwrap();
            let n: usize = args[3].parse().unwrap();
            let profile = match args[4].as_str() {
                "order" => Profile::Order,
                "long" => Profile::Long,
                "core" => Profile::Core,
                "resize" => Profile::Resize,
                "close" => Profile::Close,
                _ => Profile::Mixed,
            };
            let max_labels: usize = args[5].parse().unwrap();
            // optional: the traces before index `skip` are not executed (used to carry on after a
            // trace in which the pool killed the process)
            let skip: usize = args.get(6).map(|x| x.parse().unwrap()).unwrap_or(0);
            let mut master = Rng::new(seed);
            for i in 0..n {
                let mut g = Gen {
                    rng: master.fork(),
                    profile,
                    max_labels,
                };
                if i < skip {
                    continue;
                }
                let t = gen_trace(&mut g);
                print_trace(i, &t);
            }
        }
        Some("stress") => stress(args[2].parse().unwrap()),
        Some("stress2") => stress2(args[2].parse().unwrap(), args[3].parse().unwrap()),
        Some("exh") => {
            // exh <scenario index> <max depth> <max edges>
            let k: usize = args[2].parse().unwrap();
            let depth: usize = args[3].parse().unwrap();
            let max_edges: usize = args[4].parse().unwrap();
            let sc = scenarios();
            let (cfg, script) = &sc[k % sc.len()];
            let n = explore(cfg, script, depth, max_edges);
            eprintln!("scenario {}: {} edges", k, n);
        }
        Some("seq") => {
            // seq <max_size> <hooks 0/1/2> <max depth> <max edges> <stride: print every n-th edge>
            let m0: usize = args[2].parse().unwrap();
            let hooks: usize = args[3].parse().unwrap();
            let depth: usize = args[4].parse().unwrap();
            let max_edges: usize = args[5].parse().unwrap();
            let stride: usize = args[6].parse().unwrap();
            let n = explore_seq(m0, hooks, depth, max_edges, stride);
            eprintln!("seq max_size {}: {} traces", m0, n);
        }
        Some("replay") => {
            let text = std::fs::read_to_string(&args[2]).unwrap();
            for (i, line) in text.lines().enumerate() {
                if let Some((cfg, labels)) = parse_replay_line(line) {
                    let t = replay_trace(cfg, &labels);
                    print_trace(i, &t);
                }
            }
        }
        _ => {
            eprintln!("usage: h1_managed gen <seed> <n> <profile> <maxlabels> | replay <file>");
            std::process::exit(2);
        }
    }
}
