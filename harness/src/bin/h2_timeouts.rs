//! H2: task-level correspondence harness on a paused tokio clock (timeouts with a runtime).
//!
//! The pool is built with `Runtime::Tokio1`; every operation is a spawned task of a
//! current-thread runtime whose clock is paused. After every label the runtime is run until
//! nothing can make progress any more ("settle"), then an observation in the same format as
//! H1 is recorded. `Fire t` advances the virtual clock exactly to the deadline of the timed
//! section task t is in (deadlines are made pairwise distinct by giving every task its own
//! power-of-two durations, and only the earliest deadline is ever fired).
//!
//! usage: h2_timeouts gen <seed> <ntraces> <maxlabels> | replay <file> | build
use std::collections::BTreeMap;
use std::fmt::Write as _;
use std::sync::atomic::{AtomicUsize, Ordering};
use std::sync::{Arc, Mutex};
use std::time::Duration;

use deadpool::managed::{
    self, BuildError, Hook, HookError, Metrics, Object, PoolError, QueueMode, RecycleError,
    RecycleResult, TimeoutType, Timeouts,
};
use deadpool::Runtime;
use tokio::sync::oneshot;
use verif_harness::rng::Rng;

const EV_CREATE_CALL: i64 = 1;
const EV_RECYCLE_CALL: i64 = 2;
const EV_HOOK_CALL: i64 = 3;
const EV_DETACH: i64 = 4;
const EV_DESTROY: i64 = 5;
const EV_HANDOUT: i64 = 6;
const EV_REMOVED: i64 = 9;
const EV_STATUS: i64 = 10;
const EV_CREATED: i64 = 11;

const K_PRE: u8 = 0;
const K_RECYCLE: u8 = 1;
const K_POST: u8 = 2;
const K_CREATE: u8 = 3;
const K_POSTCREATE: u8 = 4;

tokio::task_local! { static TID: usize; }
fn tid() -> i64 {
    TID.try_with(|t| *t as i64).unwrap_or(-1)
}

#[derive(Default)]
struct Shared {
    events: Vec<[i64; 5]>,
    /// the gate each task is blocked at, with the sender that releases it
    gates: BTreeMap<usize, (u8, u8, oneshot::Sender<u8>)>,
    results: BTreeMap<usize, i64>,
}
struct Log {
    sh: Mutex<Shared>,
    next_oid: AtomicUsize,
}
impl Log {
    fn ev(&self, e: [i64; 5]) {
        self.sh.lock().unwrap().events.push(e);
    }
    async fn gate(&self, kind: u8, k: u8) -> u8 {
        let (tx, rx) = oneshot::channel();
        let t = tid() as usize;
        let _ = self.sh.lock().unwrap().gates.insert(t, (kind, k, tx));
        // if the future is dropped here (cancellation, timeout) the entry is removed by the guard
        struct Guard<'a>(&'a Log, usize);
        impl Drop for Guard<'_> {
            fn drop(&mut self) {
                let _ = self.0.sh.lock().unwrap().gates.remove(&self.1);
            }
        }
        let _g = Guard(self, t);
        rx.await.unwrap_or(1)
    }
}

struct Obj {
    id: usize,
    log: Arc<Log>,
}
impl Drop for Obj {
    fn drop(&mut self) {
        self.log.ev([EV_DESTROY, self.id as i64, tid(), 0, 0]);
    }
}
struct Mgr {
    log: Arc<Log>,
}
impl managed::Manager for Mgr {
    type Type = Obj;
    type Error = ();
    async fn create(&self) -> Result<Obj, ()> {
        self.log.ev([EV_CREATE_CALL, tid(), 0, 0, 0]);
        match self.log.gate(K_CREATE, 0).await {
            0 => {
                let id = self.log.next_oid.fetch_add(1, Ordering::SeqCst);
                self.log.ev([EV_CREATED, id as i64, tid(), 0, 0]);
                Ok(Obj { id, log: self.log.clone() })
            }
            1 => Err(()),
            _ => panic!("scripted panic in create"),
        }
    }
    async fn recycle(&self, obj: &mut Obj, m: &Metrics) -> RecycleResult<()> {
        self.log.ev([EV_RECYCLE_CALL, obj.id as i64, m.recycle_count as i64, m.recycled.is_some() as i64, tid()]);
        match self.log.gate(K_RECYCLE, 0).await {
            0 => Ok(()),
            1 => Err(RecycleError::message("scripted")),
            _ => panic!("scripted panic in recycle"),
        }
    }
    fn detach(&self, obj: &mut Obj) {
        self.log.ev([EV_DETACH, obj.id as i64, tid(), 0, 0]);
    }
}
fn make_hook(log: Arc<Log>, kind: u8, k: u8) -> Hook<Mgr> {
    Hook::async_fn(move |obj: &mut Obj, m: &Metrics| {
        let log = log.clone();
        let (id, rc, rs) = (obj.id, m.recycle_count, m.recycled.is_some());
        Box::pin(async move {
            log.ev([EV_HOOK_CALL, (kind as i64) * 10 + k as i64, id as i64, rc as i64, rs as i64]);
            match log.gate(kind, k).await {
                0 => Ok(()),
                1 => Err(HookError::message("scripted")),
                _ => panic!("scripted panic in hook"),
            }
        })
    })
}
type Pool = managed::Pool<Mgr>;

#[derive(Clone, Debug)]
struct Cfg {
    max: usize,
    lifo: bool,
    pre: usize,
    post: usize,
    pc: usize,
    pool_tk: i64, // pool-level timeouts code (as configured at build time)
}
impl Cfg {
    fn to_ints(&self) -> Vec<i64> {
        let b = |n: usize| ((1i64 << n) - 1, n as i64); // all hooks async
        let (a, an) = b(self.pre);
        let (p, pn) = b(self.post);
        let (c, cn) = b(self.pc);
        vec![self.max as i64, self.lifo as i64, a, an, p, pn, c, cn, 1, self.pool_tk]
    }
    fn from_ints(v: &[i64]) -> Cfg {
        Cfg {
            max: v[0] as usize,
            lifo: v[1] != 0,
            pre: v[3] as usize,
            post: v[5] as usize,
            pc: v[7] as usize,
            pool_tk: *v.get(9).unwrap_or(&0),
        }
    }
}

const L_START: i64 = 0;
const L_ENV: i64 = 2;
const L_CANCEL: i64 = 3;
const L_FIRE: i64 = 5;
/// the virtual clock moves half way towards the next deadline; nothing fires
const L_TICK: i64 = 6;
const OP_GET: i64 = 0;
const OP_DROP: i64 = 1;
const OP_TAKE: i64 = 2;
const OP_RESIZE: i64 = 3;
const OP_STATUS: i64 = 6;

/// every task gets its own durations so that no two deadlines coincide
fn dur(t: usize, kind: u32) -> Duration {
    if t % 7 == 6 {
        // a timeout so long that it never fires: finite for the pool, but no deadline to wait for
        return Duration::MAX;
    }
    Duration::from_millis(1u64 << (3 * (t as u32 % 12) + kind))
}
fn timeouts_of(code: i64, t: usize) -> Timeouts {
    let d = |x: i64, kind: u32| match x {
        0 => None,
        1 => Some(Duration::ZERO),
        _ => Some(dur(t, kind)),
    };
    Timeouts {
        wait: d(code % 3, 0),
        create: d((code / 3) % 3, 1),
        recycle: d((code / 9) % 3, 2),
    }
}

struct World {
    cfg: Cfg,
    log: Arc<Log>,
    pool: Pool,
    held: BTreeMap<usize, Object<Mgr>>,
    taken: Vec<Obj>,
    handles: Vec<Option<tokio::task::JoinHandle<()>>>,
    ops: Vec<(i64, i64)>,
    ev_seen: usize,
    start: tokio::time::Instant,
    /// absolute virtual deadlines: wait section per task (fixed at start), and of the gate it is at
    wait_deadline: BTreeMap<usize, Duration>,
    gate_deadline: BTreeMap<usize, Duration>,
    held_rx: Arc<Mutex<Vec<Object<Mgr>>>>,
}

impl World {
    fn new(cfg: Cfg) -> World {
        let log = Arc::new(Log { sh: Mutex::new(Shared::default()), next_oid: AtomicUsize::new(0) });
        let mut b = Pool::builder(Mgr { log: log.clone() })
            .max_size(cfg.max)
            .queue_mode(if cfg.lifo { QueueMode::Lifo } else { QueueMode::Fifo })
            .runtime(Runtime::Tokio1);
        // pool-level timeouts: durations of "task 11" (never used by a per-call get); set as a whole or
        // through the three individual setters (in an order that depends on the configuration)
        let pt = timeouts_of(cfg.pool_tk, 11);
        b = match (cfg.max + cfg.pre + cfg.pool_tk as usize) % 3 {
            0 => b.timeouts(pt),
            1 => b.wait_timeout(pt.wait).create_timeout(pt.create).recycle_timeout(pt.recycle),
            _ => b.recycle_timeout(pt.recycle).create_timeout(pt.create).wait_timeout(pt.wait),
        };
        for k in 0..cfg.pre {
            b = b.pre_recycle(make_hook(log.clone(), K_PRE, k as u8));
        }
        for k in 0..cfg.post {
            b = b.post_recycle(make_hook(log.clone(), K_POST, k as u8));
        }
        for k in 0..cfg.pc {
            b = b.post_create(make_hook(log.clone(), K_POSTCREATE, k as u8));
        }
        let pool = b.build().expect("build");
        World {
            cfg,
            log,
            pool,
            held: BTreeMap::new(),
            taken: vec![],
            handles: vec![],
            ops: vec![],
            ev_seen: 0,
            start: tokio::time::Instant::now(),
            wait_deadline: BTreeMap::new(),
            gate_deadline: BTreeMap::new(),
            held_rx: Arc::new(Mutex::new(vec![])),
        }
    }
    fn now(&self) -> Duration {
        tokio::time::Instant::now() - self.start
    }
    async fn settle(&mut self) {
        for _ in 0..64 {
            tokio::task::yield_now().await;
        }
        // results of aborted / panicked tasks
        for t in 0..self.handles.len() {
            let fin = self.handles[t].as_ref().map(|h| h.is_finished()).unwrap_or(false);
            if fin {
                let h = self.handles[t].take().unwrap();
                if let Err(e) = h.await {
                    let code = if e.is_cancelled() { 9 } else { 8 };
                    let _ = self.log.sh.lock().unwrap().results.entry(t).or_insert(code);
                }
            }
        }
        let objs: Vec<_> = self.held_rx.lock().unwrap().drain(..).collect();
        for o in objs {
            let _ = self.held.insert(o.id, o);
        }
        // bookkeeping of the timed sections
        let sh = self.log.sh.lock().unwrap();
        let now = tokio::time::Instant::now() - self.start;
        let mut gd = BTreeMap::new();
        for (t, (kind, _k, _)) in sh.gates.iter() {
            let (_, tk) = self.ops[*t];
            let to = timeouts_of(tk, if self.ops[*t].0 == 99 { 11 } else { *t });
            let d = match *kind {
                K_CREATE => to.create,
                K_RECYCLE => to.recycle,
                _ => None,
            };
            if let Some(d) = d {
                if !d.is_zero() && d != Duration::MAX {
                    let v = self.gate_deadline.get(t).cloned().unwrap_or(now + d);
                    let _ = gd.insert(*t, v);
                }
            }
        }
        self.gate_deadline = gd;
        let done: Vec<usize> = sh.results.keys().cloned().collect();
        for t in done {
            let _ = self.wait_deadline.remove(&t);
        }
        for t in sh.gates.keys() {
            let _ = self.wait_deadline.remove(t); // past the semaphore
        }
    }
    fn task_code(&self, t: usize, sh: &Shared) -> i64 {
        if let Some(r) = sh.results.get(&t) {
            return 100 + r;
        }
        if let Some((kind, k, _)) = sh.gates.get(&t) {
            return 20 + 10 * (*kind as i64) + *k as i64;
        }
        3
    }
    fn observe(&mut self) -> Vec<i64> {
        let mut o = vec![];
        let s = self.pool.verif_snapshot();
        o.extend([1, s.permits as i64, s.closed as i64, s.size as i64, s.max_size as i64, s.users as i64, s.debt as i64]);
        let mut idle = vec![];
        self.pool.verif_visit_idle(|ob, m| idle.push([ob.id as i64, m.recycle_count as i64, m.recycled.is_some() as i64]));
        o.push(idle.len() as i64);
        for i in idle {
            o.extend(i);
        }
        let sh = self.log.sh.lock().unwrap();
        o.push(self.ops.len() as i64);
        for t in 0..self.ops.len() {
            o.push(self.task_code(t, &sh));
        }
        o.push((sh.events.len() - self.ev_seen) as i64);
        for e in &sh.events[self.ev_seen..] {
            o.extend(e);
        }
        self.ev_seen = sh.events.len();
        o
    }
    /// the earliest active deadline and its task
    /// the earliest pending deadline - only if it is the only one in its millisecond: the clock moves in whole
    /// milliseconds (timer resolution), so deadlines that coincide fire together, which one `Fire t` cannot say
    fn next_deadline(&self) -> Option<(usize, Duration)> {
        let sh = self.log.sh.lock().unwrap();
        let ms = |d: &Duration| (d.as_micros() + 999) / 1000;
        let mut best: Option<(usize, Duration)> = None;
        let mut tie = false;
        for (t, d) in self.wait_deadline.iter().chain(self.gate_deadline.iter()) {
            if sh.results.contains_key(t) {
                continue;
            }
            match best {
                Some(b) if ms(d) == ms(&b.1) => tie = true,
                Some(b) if ms(d) > ms(&b.1) => {}
                _ => {
                    best = Some((*t, *d));
                    tie = false;
                }
            }
        }
        if tie {
            None
        } else {
            best
        }
    }
    fn enabled(&self, l: &[i64]) -> bool {
        let sh = self.log.sh.lock().unwrap();
        match l[0] {
            L_START => {
                l[1] as usize == self.ops.len()
                    && match l[2] {
                        OP_DROP | OP_TAKE => self.held.contains_key(&(l[3] as usize)),
                        _ => true,
                    }
            }
            L_ENV => sh.gates.contains_key(&(l[1] as usize)) && (0..=2).contains(&l[2]),
            L_CANCEL => {
                let t = l[1] as usize;
                t < self.ops.len() && matches!(self.ops[t].0, OP_GET | 99) && !sh.results.contains_key(&t)
            }
            L_FIRE => {
                drop(sh);
                self.next_deadline().map(|(t, _)| t as i64 == l[1]).unwrap_or(false)
            }
            L_TICK => {
                drop(sh);
                let now = self.now();
                self.next_deadline().map(|(_, d)| d > now + Duration::from_millis(2)).unwrap_or(false)
            }
            _ => false,
        }
    }
    async fn apply(&mut self, l: &[i64]) {
        match l[0] {
            L_START => {
                let t = self.ops.len();
                self.ops.push((l[2], l[3]));
                match l[2] {
                    OP_GET => {
                        let pool = self.pool.clone();
                        let log = self.log.clone();
                        let tk = l[3];
                        let use_default = tk == self.cfg.pool_tk && l[4] == 1;
                        let to = timeouts_of(tk, t);
                        let wait = if use_default { timeouts_of(tk, 11).wait } else { to.wait };
                        if let Some(d) = wait {
                            if !d.is_zero() && d != Duration::MAX {
                                let _ = self.wait_deadline.insert(t, self.now() + d);
                            }
                        }
                        if use_default {
                            self.ops[t].0 = 99; // get() with the pool's configured timeouts
                        }
                        let held = self.held_rx.clone();
                        let h = tokio::spawn(TID.scope(t, async move {
                            let r = if use_default { pool.get().await } else { pool.timeout_get(&to).await };
                            let code = match r {
                                Ok(obj) => {
                                    let m = *Object::metrics(&obj);
                                    log.ev([EV_HANDOUT, obj.id as i64, t as i64, m.recycle_count as i64, m.recycled.is_some() as i64]);
                                    held.lock().unwrap().push(obj);
                                    0
                                }
                                Err(PoolError::Timeout(TimeoutType::Wait)) => 1,
                                Err(PoolError::Timeout(TimeoutType::Create)) => 2,
                                Err(PoolError::Timeout(TimeoutType::Recycle)) => 3,
                                Err(PoolError::Backend(())) => 4,
                                Err(PoolError::PostCreateHook(_)) => 5,
                                Err(PoolError::Closed) => 6,
                                Err(PoolError::NoRuntimeSpecified) => 7,
                            };
                            let _ = log.sh.lock().unwrap().results.insert(t, code);
                        }));
                        self.handles.push(Some(h));
                    }
                    OP_DROP => {
                        let obj = self.held.remove(&(l[3] as usize)).unwrap();
                        TID.sync_scope(t, || {
                            if (obj.id + t) % 3 == 0 {
                                // the holder panics: the object goes back while its thread unwinds
                                let _ = std::panic::catch_unwind(std::panic::AssertUnwindSafe(move || {
                                    let _o = obj;
                                    std::panic::resume_unwind(Box::new(()))
                                }));
                            } else {
                                drop(obj)
                            }
                        });
                        let _ = self.log.sh.lock().unwrap().results.insert(t, 10);
                        self.handles.push(None);
                    }
                    OP_TAKE => {
                        let obj = self.held.remove(&(l[3] as usize)).unwrap();
                        let inner = TID.sync_scope(t, || Object::take(obj));
                        self.log.ev([EV_REMOVED, inner.id as i64, t as i64, 0, 0]);
                        self.taken.push(inner);
                        let _ = self.log.sh.lock().unwrap().results.insert(t, 10);
                        self.handles.push(None);
                    }
                    OP_RESIZE => {
                        let n = l[3].max(0) as usize;
                        TID.sync_scope(t, || self.pool.resize(n));
                        let _ = self.log.sh.lock().unwrap().results.insert(t, 10);
                        self.handles.push(None);
                    }
                    _ => {
                        let s = self.pool.status();
                        self.log.ev([EV_STATUS, s.max_size as i64, s.size as i64, s.available as i64, s.waiting as i64]);
                        let _ = self.log.sh.lock().unwrap().results.insert(t, 10);
                        self.handles.push(None);
                    }
                }
            }
            L_ENV => {
                let g = self.log.sh.lock().unwrap().gates.remove(&(l[1] as usize));
                if let Some((_, _, tx)) = g {
                    let _ = self.gate_deadline.remove(&(l[1] as usize));
                    let _ = tx.send(l[2] as u8);
                }
            }
            L_CANCEL => {
                if let Some(h) = &self.handles[l[1] as usize] {
                    h.abort();
                }
            }
            L_TICK => {
                if let Some((_, d)) = self.next_deadline() {
                    let now = self.now();
                    if d > now + Duration::from_millis(2) {
                        // whole milliseconds only: tokio's timers have that resolution, and every deadline
                        // of the harness is meant to be a whole number of milliseconds
                        let half = Duration::from_millis(((d - now).as_millis() as u64) / 2);
                        tokio::time::advance(half).await;
                    }
                }
            }
            L_FIRE => {
                if let Some((t, d)) = self.next_deadline() {
                    // whatever gate the task reaches afterwards is a new timed section
                    let _ = self.gate_deadline.remove(&t);
                    let now = self.now();
                    // to the next full millisecond at or after the deadline (timer resolution)
                    let d = Duration::from_millis((d.as_micros() as u64 + 999) / 1000);
                    if d > now {
                        tokio::time::advance(d - now).await;
                    }
                }
            }
            _ => {}
        }
        self.settle().await;
    }
}

struct TraceOut {
    cfg: Cfg,
    labels: Vec<Vec<i64>>,
    obs: Vec<Vec<i64>>,
    err: Option<String>,
}

async fn run_label(w: &mut World, out: &mut TraceOut, l: Vec<i64>) -> bool {
    if !w.enabled(&l) {
        out.err = Some(format!("label {:?} not enabled on the implementation at step {}", l, out.labels.len()));
        return false;
    }
    w.apply(&l).await;
    out.labels.push(l);
    out.obs.push(w.observe());
    true
}

fn choose(r: &mut Rng, w: &World, cap: usize) -> Option<Vec<i64>> {
    let mut cands: Vec<(u64, Vec<i64>)> = vec![];
    {
        let sh = w.log.sh.lock().unwrap();
        for (t, (_kind, _k, _)) in sh.gates.iter() {
            let ti = *t as i64;
            cands.push((10, vec![L_ENV, ti, 0, 0, 0]));
            cands.push((3, vec![L_ENV, ti, 1, 0, 0]));
            cands.push((1, vec![L_ENV, ti, 2, 0, 0]));
            cands.push((2, vec![L_CANCEL, ti, 0, 0, 0]));
        }
        for t in 0..w.ops.len() {
            if matches!(w.ops[t].0, OP_GET | 99) && !sh.results.contains_key(&t) && !sh.gates.contains_key(&t) {
                cands.push((2, vec![L_CANCEL, t as i64, 0, 0, 0])); // waiting for a slot
            }
        }
    }
    if let Some((t, d)) = w.next_deadline() {
        cands.push((8, vec![L_FIRE, t as i64, 0, 0, 0]));
        if d > w.now() + Duration::from_millis(2) {
            cands.push((4, vec![L_TICK, 0, 0, 0, 0]));
        }
    }
    let n = w.ops.len();
    if n < cap {
        let nt = n as i64;
        // timeouts: any of the 27 combinations; often the pool's own (then through get())
        let tk = if r.chance(30) { w.cfg.pool_tk } else { r.below(27) as i64 };
        // at most one get() through the pool's own (shared) durations at a time, so that no two
        // deadlines coincide
        let via_active = {
            let sh = w.log.sh.lock().unwrap();
            (0..w.ops.len()).any(|t| w.ops[t].0 == 99 && !sh.results.contains_key(&t))
        };
        let via_get = (tk == w.cfg.pool_tk && !via_active && r.chance(70)) as i64;
        cands.push((10, vec![L_START, nt, OP_GET, tk, via_get]));
        let held: Vec<usize> = w.held.keys().cloned().collect();
        if !held.is_empty() {
            let o = held[r.below(held.len() as u64) as usize] as i64;
            cands.push((10 + 6 * held.len() as u64, vec![L_START, nt, OP_DROP, o, 0]));
            cands.push((2, vec![L_START, nt, OP_TAKE, o, 0]));
        }
        cands.push((2, vec![L_START, nt, OP_STATUS, 0, 0]));
        // a resize now and then: shrinks under load leave a debt that waiting gets have to settle
        let cur = w.pool.verif_snapshot().max_size as u64;
        let target = match r.below(4) {
            0 => cur.saturating_sub(1),
            1 => cur.saturating_sub(2),
            2 => cur + 1,
            _ => r.below(cur + 2),
        };
        cands.push((3, vec![L_START, nt, OP_RESIZE, target as i64, 0]));
    }
    if cands.is_empty() {
        return None;
    }
    let ws: Vec<u64> = cands.iter().map(|c| c.0).collect();
    let i = r.weighted(&ws);
    Some(cands.swap_remove(i).1)
}

async fn gen_trace(r: &mut Rng, max_labels: usize) -> TraceOut {
    let hooks = |r: &mut Rng| [0usize, 0, 1, 1, 2][r.below(5) as usize];
    let cfg = Cfg {
        max: [0usize, 1, 1, 2, 2, 3][r.below(6) as usize],
        lifo: r.chance(50),
        pre: hooks(r),
        post: hooks(r),
        pc: hooks(r),
        pool_tk: if r.chance(40) { 0 } else { r.below(27) as i64 },
    };
    let mut w = World::new(cfg.clone());
    let mut out = TraceOut { cfg, labels: vec![], obs: vec![], err: None };
    let n = 8 + r.below(max_labels as u64 - 7) as usize;
    for _ in 0..n {
        match choose(r, &w, 11) {
            Some(l) => {
                if !run_label(&mut w, &mut out, l).await {
                    break;
                }
            }
            None => break,
        }
    }
    // drain: cancel everything that is still in flight
    loop {
        let pending: Option<usize> = {
            let sh = w.log.sh.lock().unwrap();
            (0..w.ops.len()).find(|t| !sh.results.contains_key(t))
        };
        match pending {
            Some(t) => {
                if !run_label(&mut w, &mut out, vec![L_CANCEL, t as i64, 0, 0, 0]).await {
                    break;
                }
            }
            None => break,
        }
    }
    w.held.clear();
    w.taken.clear();
    out
}

async fn replay_trace(cfg: Cfg, labels: &[Vec<i64>]) -> TraceOut {
    let mut w = World::new(cfg.clone());
    let mut out = TraceOut { cfg, labels: vec![], obs: vec![], err: None };
    for l in labels {
        let mut l = l.clone();
        l.resize(5, 0);
        if !run_label(&mut w, &mut out, l).await {
            break;
        }
    }
    for h in w.handles.iter().flatten() {
        h.abort();
    }
    w.settle().await;
    w.held.clear();
    out
}

fn ints(v: &[i64]) -> String {
    let mut s = String::from("[");
    for (i, x) in v.iter().enumerate() {
        if i > 0 {
            s.push(',');
        }
        let _ = write!(s, "{}", x);
    }
    s.push(']');
    s
}
fn print_trace(id: usize, t: &TraceOut) {
    let mut s = String::new();
    let _ = write!(s, "{{\"id\":{},\"cfg\":{},\"labels\":[", id, ints(&t.cfg.to_ints()));
    for (i, l) in t.labels.iter().enumerate() {
        if i > 0 {
            s.push(',');
        }
        s.push_str(&ints(l));
    }
    s.push_str("],\"obs\":[");
    for (i, l) in t.obs.iter().enumerate() {
        if i > 0 {
            s.push(',');
        }
        s.push_str(&ints(l));
    }
    s.push(']');
    if let Some(e) = &t.err {
        let _ = write!(s, ",\"err\":\"{}\"", e.replace('"', "'"));
    }
    s.push('}');
    println!("{}", s);
}

fn parse_replay_line(line: &str) -> Option<(Cfg, Vec<Vec<i64>>)> {
    fn parse_arr(s: &str) -> (Vec<i64>, usize) {
        let end = s.find(']').unwrap();
        let v = s[1..end].split(',').filter(|x| !x.trim().is_empty()).map(|x| x.trim().parse::<i64>().unwrap()).collect();
        (v, end + 1)
    }
    let ci = line.find("\"cfg\"")?;
    let cs = &line[ci..];
    let (cfg, _) = parse_arr(&cs[cs.find('[')?..]);
    let li = line.find("\"labels\"")?;
    let ls = &line[li..];
    let mut rest = &ls[ls.find('[')? + 1..];
    let mut labels = vec![];
    loop {
        let r = rest.trim_start_matches([',', ' ']);
        if r.starts_with('[') {
            let (v, n) = parse_arr(r);
            labels.push(v);
            rest = &r[n..];
        } else {
            break;
        }
    }
    Some((Cfg::from_ints(&cfg), labels))
}

fn rt() -> tokio::runtime::Runtime {
    tokio::runtime::Builder::new_current_thread().enable_time().start_paused(true).build().unwrap()
}

/// PoolBuilder::build for every combination of pool-level timeouts and runtime present/absent
fn build_table() {
    for code in 0..27i64 {
        for with_rt in [false, true] {
            let log = Arc::new(Log { sh: Mutex::new(Shared::default()), next_oid: AtomicUsize::new(0) });
            let pt = timeouts_of(code, 0);
            let mut b = if code % 2 == 0 {
                Pool::builder(Mgr { log }).max_size(1).timeouts(pt)
            } else {
                Pool::builder(Mgr { log }).max_size(1).wait_timeout(pt.wait).create_timeout(pt.create).recycle_timeout(pt.recycle)
            };
            if with_rt {
                b = b.runtime(Runtime::Tokio1);
            }
            let r = match b.build() {
                Ok(_) => 0,
                Err(BuildError::NoRuntimeSpecified) => 1,
            };
            println!("{{\"code\":{},\"runtime\":{},\"result\":{}}}", code, with_rt as i64, r);
        }
    }
}

fn main() {
    std::panic::set_hook(Box::new(|info| {
        if std::thread::current().name() == Some("main") && !format!("{}", info).contains("scripted panic") {
            eprintln!("harness panic: {}", info);
        }
    }));
    let args: Vec<String> = std::env::args().collect();
    match args.get(1).map(|s| s.as_str()) {
        Some("gen") => {
            let seed: u64 = args[2].parse().unwrap();
            let n: usize = args[3].parse().unwrap();
            let ml: usize = args[4].parse().unwrap();
            let mut master = Rng::new(seed);
            for i in 0..n {
                let mut r = master.fork();
                let t = rt().block_on(gen_trace(&mut r, ml));
                print_trace(i, &t);
            }
        }
        Some("replay") => {
            let text = std::fs::read_to_string(&args[2]).unwrap();
            for (i, line) in text.lines().enumerate() {
                if let Some((cfg, labels)) = parse_replay_line(line) {
                    let t = rt().block_on(replay_trace(cfg, &labels));
                    print_trace(i, &t);
                }
            }
        }
        Some("build") => build_table(),
        _ => {
            eprintln!("usage: h2_timeouts gen <seed> <n> <maxlabels> | replay <file> | build");
            std::process::exit(2);
        }
    }
}
