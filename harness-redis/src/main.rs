//! H5 - scripted RESP2 server on loopback TCP carrying a real `deadpool_redis::Pool` (property C17).
//!
//! Usage: h5_redis gen <seed> <n> <profile> <maxlabels>
//!        h5_redis replay <file>        (lines: {"cfg":[..],"labels":[[..],..]})
//!
//! Every label is executed to completion on a current-thread tokio runtime (task level). After a
//! successful get() the harness sends `CLIENT ID` on the connection it was given; the server
//! answers with its own number for that connection and logs the command together with the WATCH
//! state it keeps for the connection - this is how "which connection was handed out, and was it
//! clean at that moment" is observed from the outside.
//!
//! cfg    = [max_size, response timeout configured (0/1)]
//! labels = [0] get | [1,c] return | [2,c] Connection::take | [3,c,k] use (0 WATCH 1 GET 2 SET 3 UNWATCH)
//!        | [4,c,mode,v] next PING on c is answered: 0 echo, 1 bulk v, 2 simple string v, 3 integer v,
//!                       4 nil, 5 error, 6 the server hangs up, 7 +PONG, 8 bulk PONG,
//!                       10 the number zero padded, 11 the number with a plus sign (not the echo),
//!                       9 no answer at all (only with cfg[1] = 1: the manager has a response timeout)
//!        | [5,c] next UNWATCH on c is answered with an error | [6] next connect: hang up after accept
//!        | [7,c] the server hangs up on c now
//! obs    = [r0,r1,r2, max_size,size,available, nconns,(server_closed_i,watch_i).., ncmds,(len,conn,kind,..)..,
//!           nanomalies, codes..]
//! cmd    = [conn,1] UNWATCH | [conn,2,n,has_value,value] PING n and the value answered
//!        | [conn,3] WATCH | [conn,4] GET | [conn,5] SET | [conn,6,watch] CLIENT ID (hand-out mark)
#[path = "../../harness/src/rng.rs"]
mod rng;

use std::collections::BTreeMap;
use std::fmt::Write as _;
use std::sync::{Arc, Mutex, OnceLock};
use std::time::Duration;

use deadpool_redis::redis::aio::MultiplexedConnection;
use deadpool_redis::{Config, Connection, Pool, PoolConfig, PoolError, Runtime, Timeouts};
use rng::Rng;
use tokio::io::{AsyncReadExt, AsyncWriteExt};
use tokio::net::{TcpListener, TcpStream};
use tokio::sync::Notify;

// ------------------------------------------------------------------ shared world
struct ConnCtl {
    arm_ping: (i64, i64),
    arm_unwatch: bool,
    watch: bool,
    server_closed: bool,
    kill: Arc<Notify>,
}

#[derive(Default)]
struct World {
    log: Vec<Vec<i64>>,
    conns: Vec<ConnCtl>,
    arm_connect: bool,
    last_ping: i64,
    anomalies: Vec<i64>,
}

type Sh = Arc<Mutex<World>>;

/// One listening socket per process: every case accepts on a clone of it. Together with SO_LINGER 0
/// on the server's side of every connection (a hang-up is a reset) this keeps long runs from
/// filling the loopback interface with TIME_WAIT sockets.
static LISTENER: OnceLock<std::net::TcpListener> = OnceLock::new();

fn listener() -> (TcpListener, std::net::SocketAddr) {
    let l = LISTENER.get_or_init(|| {
        let l = std::net::TcpListener::bind("127.0.0.1:0").expect("bind 127.0.0.1:0");
        l.set_nonblocking(true).unwrap();
        l
    });
    let addr = l.local_addr().unwrap();
    (TcpListener::from_std(l.try_clone().unwrap()).unwrap(), addr)
}

// ------------------------------------------------------------------ RESP2 server
/// one complete `*N $len arg ...` command from the front of `acc`, if there is one
fn parse_cmd(acc: &mut Vec<u8>) -> Option<Vec<String>> {
    fn line(b: &[u8], from: usize) -> Option<(&[u8], usize)> {
        let mut i = from;
        while i + 1 < b.len() {
            if b[i] == b'\r' && b[i + 1] == b'\n' {
                return Some((&b[from..i], i + 2));
            }
            i += 1;
        }
        None
    }
    if acc.is_empty() || acc[0] != b'*' {
        return None;
    }
    let (l, mut pos) = line(acc, 0)?;
    let n: usize = std::str::from_utf8(&l[1..]).ok()?.parse().ok()?;
    let mut args = vec![];
    for _ in 0..n {
        let (h, p) = line(acc, pos)?;
        if h.is_empty() || h[0] != b'$' {
            return None;
        }
        let len: usize = std::str::from_utf8(&h[1..]).ok()?.parse().ok()?;
        if acc.len() < p + len + 2 {
            return None;
        }
        args.push(String::from_utf8_lossy(&acc[p..p + len]).to_string());
        pos = p + len + 2;
    }
    let _ = acc.drain(..pos);
    Some(args)
}

async fn serve(mut s: TcpStream, id: usize, sh: Sh, kill: Arc<Notify>) {
    let mut buf = vec![0u8; 4096];
    let mut acc: Vec<u8> = vec![];
    'outer: loop {
        let n = tokio::select! {
            r = s.read(&mut buf) => match r { Ok(0) | Err(_) => break, Ok(n) => n },
            _ = kill.notified() => { sh.lock().unwrap().conns[id].server_closed = true; break }
        };
        acc.extend(&buf[..n]);
        while let Some(args) = parse_cmd(&mut acc) {
            let name = args[0].to_uppercase();
            let reply: Option<String> = {
                let mut w = sh.lock().unwrap();
                match name.as_str() {
                    "CLIENT" if args.get(1).map(|a| a.to_uppercase()) == Some("ID".into()) => {
                        let wt = w.conns[id].watch as i64;
                        w.log.push(vec![id as i64, 6, wt]);
                        Some(format!(":{}\r\n", id))
                    }
                    "CLIENT" | "SELECT" | "AUTH" => Some("+OK\r\n".into()),
                    "UNWATCH" => {
                        w.conns[id].watch = false;
                        w.log.push(vec![id as i64, 1]);
                        if std::mem::take(&mut w.conns[id].arm_unwatch) {
                            // two wordings of the error: a failure / what a server or proxy without the
                            // command answers - an error reply is an error reply
                            if (w.log.len() + id) % 2 == 0 {
                                Some("-ERR scripted failure\r\n".into())
                            } else {
                                Some("-ERR unknown command 'UNWATCH', with args beginning with: \r\n".into())
                            }
                        } else {
                            Some("+OK\r\n".into())
                        }
                    }
                    "WATCH" => {
                        w.conns[id].watch = true;
                        w.log.push(vec![id as i64, 3]);
                        Some("+OK\r\n".into())
                    }
                    "GET" => {
                        w.log.push(vec![id as i64, 4]);
                        Some("$-1\r\n".into())
                    }
                    "SET" => {
                        w.log.push(vec![id as i64, 5]);
                        Some("+OK\r\n".into())
                    }
                    "PING" => {
                        let arg = args.get(1).cloned().unwrap_or_default();
                        let n: i64 = arg.parse().unwrap_or(-1);
                        w.last_ping = w.last_ping.max(n);
                        let (mode, v) = std::mem::take(&mut w.conns[id].arm_ping);
                        let (has, val, rep) = match mode {
                            0 => (1, n, Some(format!("${}\r\n{}\r\n", arg.len(), arg))),
                            1 => (1, v, Some(format!("${}\r\n{}\r\n", v.to_string().len(), v))),
                            2 => (1, v, Some(format!("+{}\r\n", v))),
                            3 => (1, v, Some(format!(":{}\r\n", v))),
                            4 => (0, 0, Some("$-1\r\n".into())),
                            5 => (0, 0, Some("-ERR scripted failure\r\n".into())),
                            // the argument-less answer: not the echo of the number (value -7 in the log)
                            7 => (1, -7, Some("+PONG\r\n".into())),
                            8 => (1, -7, Some("$4\r\nPONG\r\n".into())),
                            // another string that denotes the same number: zero padded / with a sign
                            10 => (1, -7, Some(format!("${}\r\n00{}\r\n", arg.len() + 2, arg))),
                            11 => (1, -7, Some(format!("+{}{}\r\n", "+", arg))),
                            // silent: the PING is read and never answered, the socket stays open
                            9 => (0, 0, Some(String::new())),
                            _ => (0, 0, None),
                        };
                        w.log.push(vec![id as i64, 2, n, has, val]);
                        if rep.is_none() {
                            w.conns[id].server_closed = true;
                        }
                        rep
                    }
                    _ => {
                        w.log.push(vec![id as i64, 9]);
                        Some("-ERR unknown command\r\n".into())
                    }
                }
            };
            match reply {
                Some(r) => {
                    if s.write_all(r.as_bytes()).await.is_err() {
                        break 'outer;
                    }
                }
                None => break 'outer,
            }
        }
    }
    drop(s);
}

async fn accept_loop(l: TcpListener, sh: Sh) {
    loop {
        let (s, _) = match l.accept().await {
            Ok(x) => x,
            Err(_) => return,
        };
        let _ = s.set_nodelay(true);
        #[allow(deprecated)]
        let _ = s.set_linger(Some(Duration::ZERO));
        let kill = Arc::new(Notify::new());
        let (id, refuse) = {
            let mut w = sh.lock().unwrap();
            let refuse = std::mem::take(&mut w.arm_connect);
            w.conns.push(ConnCtl { arm_ping: (0, 0), arm_unwatch: false, watch: false, server_closed: refuse, kill: kill.clone() });
            (w.conns.len() - 1, refuse)
        };
        if refuse {
            drop(s);
            continue;
        }
        drop(tokio::spawn(serve(s, id, sh.clone(), kill)));
    }
}

// ------------------------------------------------------------------ one case
struct Case {
    pool: Pool,
    sh: Sh,
    held: BTreeMap<usize, Connection>,
    taken: BTreeMap<usize, MultiplexedConnection>,
    logpos: usize,
    cfg: Vec<i64>,
}

impl Case {
    async fn new(cfg: &[i64]) -> Case {
        let sh: Sh = Default::default();
        let (l, addr) = listener();
        drop(tokio::spawn(accept_loop(l, sh.clone())));
        let pool = if cfg.get(1).copied().unwrap_or(0) == 0 {
            let mut c = Config::from_url(format!("redis://{}", addr));
            c.pool = Some(PoolConfig::new(cfg[0] as usize));
            c.create_pool(Some(Runtime::Tokio1)).unwrap()
        } else {
            // a manager with a response timeout: a server that does not answer is "no reply"
            let acc = deadpool_redis::redis::AsyncConnectionConfig::new().set_response_timeout(Duration::from_millis(250));
            let mgr = deadpool_redis::Manager::from_config(format!("redis://{}", addr), acc).unwrap();
            Pool::builder(mgr).max_size(cfg[0] as usize).runtime(Runtime::Tokio1).build().unwrap()
        };
        Case { pool, sh, held: BTreeMap::new(), taken: BTreeMap::new(), logpos: 0, cfg: cfg.to_vec() }
    }

    fn anomaly(&self, code: i64) {
        self.sh.lock().unwrap().anomalies.push(code);
    }

    /// end of a case: the server resets every connection before the clients are dropped
    async fn shutdown(&mut self) {
        let kills: Vec<Arc<Notify>> = self.sh.lock().unwrap().conns.iter().map(|c| c.kill.clone()).collect();
        for k in kills {
            k.notify_one();
        }
        for _ in 0..20 {
            tokio::task::yield_now().await;
        }
    }

    fn enabled(&self, l: &[i64]) -> bool {
        let c = l.get(1).copied().unwrap_or(0) as usize;
        match l[0] {
            0 | 6 => true,
            1 | 2 => self.held.contains_key(&c),
            3 => self.held.contains_key(&c) || self.taken.contains_key(&c),
            4 | 5 | 7 => c < self.sh.lock().unwrap().conns.len(),
            _ => false,
        }
    }

    async fn apply(&mut self, l: &[i64]) -> Vec<i64> {
        let mut r = [0i64; 3];
        let c = l.get(1).copied().unwrap_or(0) as usize;
        match l[0] {
            0 => {
                let t = Timeouts { wait: Some(Duration::ZERO), create: None, recycle: None };
                match self.pool.timeout_get(&t).await {
                    Ok(mut conn) => {
                        // ask the server which of its connections this is
                        let id: Result<i64, _> = deadpool_redis::redis::cmd("CLIENT").arg("ID").query_async(&mut conn).await;
                        match id {
                            Ok(id) => {
                                let wt = self.sh.lock().unwrap().conns[id as usize].watch as i64;
                                r = [1, id, wt];
                                if self.held.insert(id as usize, conn).is_some() || self.taken.contains_key(&(id as usize)) {
                                    self.anomaly(906); // the same connection handed out twice
                                }
                            }
                            Err(_) => {
                                r = [1, -1, 0];
                                self.anomaly(905); // a connection that does not answer was handed out
                            }
                        }
                    }
                    Err(e) => {
                        r = [2, match e {
                            PoolError::Timeout(_) => 1,
                            PoolError::Backend(_) => 2,
                            PoolError::Closed => 3,
                            _ => 9,
                        }, 0];
                    }
                }
            }
            1 => drop(self.held.remove(&c)),
            2 => {
                let conn = self.held.remove(&c).unwrap();
                let m = Connection::take(conn);
                let _ = self.taken.insert(c, m);
            }
            3 => {
                let name = ["WATCH", "GET", "SET", "UNWATCH"][l[2] as usize % 4];
                let mut cmd = deadpool_redis::redis::cmd(name);
                if l[2] % 4 != 3 {
                    let _ = cmd.arg("k");
                }
                if l[2] % 4 == 2 {
                    let _ = cmd.arg("v");
                }
                let res: Result<deadpool_redis::redis::Value, _> = match self.held.get_mut(&c) {
                    Some(conn) => cmd.query_async(conn).await,
                    None => cmd.query_async(self.taken.get_mut(&c).unwrap()).await,
                };
                r = [3, res.is_ok() as i64, 0];
            }
            4 => self.sh.lock().unwrap().conns[c].arm_ping = (l[2], l[3]),
            5 => self.sh.lock().unwrap().conns[c].arm_unwatch = true,
            6 => self.sh.lock().unwrap().arm_connect = true,
            7 => {
                let k = self.sh.lock().unwrap().conns[c].kill.clone();
                k.notify_one();
                // the server task marks the connection closed, or is gone already (client hung up)
                for _ in 0..200 {
                    if self.sh.lock().unwrap().conns[c].server_closed {
                        break;
                    }
                    tokio::task::yield_now().await;
                }
                self.sh.lock().unwrap().conns[c].server_closed = true;
            }
            _ => {}
        }
        self.observe(r)
    }

    fn observe(&mut self, r: [i64; 3]) -> Vec<i64> {
        let mut o = r.to_vec();
        let st = self.pool.status();
        o.push(st.max_size as i64);
        o.push(st.size as i64);
        o.push(st.available as i64);
        let mut w = self.sh.lock().unwrap();
        o.push(w.conns.len() as i64);
        for c in &w.conns {
            o.push(c.server_closed as i64);
            o.push(c.watch as i64);
        }
        let new: Vec<Vec<i64>> = w.log[self.logpos..].to_vec();
        self.logpos = w.log.len();
        o.push(new.len() as i64);
        for m in new {
            o.push(m.len() as i64);
            o.extend(m);
        }
        o.push(w.anomalies.len() as i64);
        o.extend(w.anomalies.drain(..));
        o
    }
}

// ------------------------------------------------------------------ generation
#[derive(Clone, Copy, PartialEq)]
enum Profile {
    Mixed,
    Faults,
    /// few connections reused several hundred times (counters that wrap, numbers that repeat)
    Long,
}

fn pick<T: Copy>(rng: &mut Rng, v: &[T]) -> T {
    v[rng.below(v.len() as u64) as usize]
}

fn gen_label(rng: &mut Rng, cs: &Case, profile: Profile) -> Vec<i64> {
    let held: Vec<i64> = cs.held.keys().map(|k| *k as i64).collect();
    let taken: Vec<i64> = cs.taken.keys().map(|k| *k as i64).collect();
    let users: Vec<i64> = held.iter().chain(taken.iter()).copied().collect();
    let (nconns, last_ping) = {
        let w = cs.sh.lock().unwrap();
        (w.conns.len() as i64, w.last_ping)
    };
    let st = cs.pool.status();
    let (h, u, n) = (!held.is_empty() as u64, !users.is_empty() as u64, (nconns > 0) as u64);
    let g: u64 = if held.len() < st.max_size { 5 } else { 1 };
    let w: [u64; 8] = match profile {
        Profile::Mixed => [6 * g, 26 * h, 3 * h, 16 * u, 10 * n, 2 * n, 1, 3 * n],
        Profile::Faults | Profile::Long => [6 * g, 28 * h, 2 * h, 8 * u, 22 * n, 4 * n, 2, 5 * n],
    };
    let k = rng.weighted(&w) as i64;
    // scripts aim at connections that will be recycled: idle ones and the ones in use
    let target = |rng: &mut Rng| -> i64 {
        if !held.is_empty() && rng.chance(50) {
            pick(rng, &held)
        } else {
            rng.below(nconns as u64) as i64
        }
    };
    match k {
        0 => vec![0],
        1 | 2 => vec![k, pick(rng, &held)],
        3 => vec![3, pick(rng, &users), rng.weighted(&[5, 2, 2, 1]) as i64],
        4 => {
            let c = target(rng);
            let silent_ok = cs.cfg.get(1).copied().unwrap_or(0) == 1;
            let mode = 1 + rng.weighted(&[4, 2, 2, 1, 3, 3, 2, 2, if silent_ok { 3 } else { 0 }, 2, 2]) as i64;
            let v = match rng.weighted(&[5, 3, 2]) {
                0 => rng.below(last_ping.max(0) as u64 + 1) as i64, // stale: a number used before
                1 => last_ping + 1 + rng.below(3) as i64,          // may even be the right one
                _ => 1000 + rng.below(1000) as i64,
            };
            vec![4, c, mode, if (1..=3).contains(&mode) { v } else { 0 }]
        }
        5 => vec![5, target(rng)],
        6 => vec![6],
        _ => vec![7, target(rng)],
    }
}

struct TraceOut {
    cfg: Vec<i64>,
    labels: Vec<Vec<i64>>,
    obs: Vec<Vec<i64>>,
    err: Option<String>,
}

fn runtime() -> tokio::runtime::Runtime {
    tokio::runtime::Builder::new_current_thread().enable_all().build().unwrap()
}

fn gen_long_trace(rng: &mut Rng) -> TraceOut {
    let cfg = vec![1 + rng.below(2) as i64];
    let rt = runtime();
    let mut t = TraceOut { cfg: cfg.clone(), labels: vec![], obs: vec![], err: None };
    rt.block_on(async {
        let mut cs = Case::new(&cfg).await;
        for i in 0..(270 + rng.below(40)) {
            let mut ls: Vec<Vec<i64>> = vec![vec![0]];
            if i % 97 == 96 {
                // now and then a stale answer: the number of the previous round
                let nconns = cs.sh.lock().unwrap().conns.len() as i64;
                let last = cs.sh.lock().unwrap().last_ping;
                if nconns > 0 {
                    ls.insert(0, vec![4, nconns - 1, 1, last.max(0)]);
                }
            }
            for l in ls {
                let o = cs.apply(&l).await;
                t.labels.push(l);
                t.obs.push(o);
            }
            let held: Vec<i64> = cs.held.keys().map(|k| *k as i64).collect();
            for c in held {
                let l = vec![1, c];
                let o = cs.apply(&l).await;
                t.labels.push(l);
                t.obs.push(o);
            }
        }
        cs.shutdown().await;
    });
    t
}

fn gen_trace(rng: &mut Rng, profile: Profile, max_labels: usize) -> TraceOut {
    if profile == Profile::Long {
        return gen_long_trace(rng);
    }
    let cfg = vec![1 + rng.below(4) as i64, rng.chance(12) as i64];
    let rt = runtime();
    let mut t = TraceOut { cfg: cfg.clone(), labels: vec![], obs: vec![], err: None };
    rt.block_on(async {
        let mut cs = Case::new(&cfg).await;
        let n = 8 + rng.below(max_labels.saturating_sub(7).max(1) as u64) as usize;
        for _ in 0..n {
            let l = gen_label(rng, &cs, profile);
            let o = cs.apply(&l).await;
            t.labels.push(l);
            t.obs.push(o);
        }
        cs.shutdown().await;
    });
    t
}

fn replay_trace(cfg: Vec<i64>, labels: &[Vec<i64>]) -> TraceOut {
    let rt = runtime();
    let mut t = TraceOut { cfg: cfg.clone(), labels: vec![], obs: vec![], err: None };
    rt.block_on(async {
        let mut cs = Case::new(&cfg).await;
        for l in labels {
            if l.is_empty() || !cs.enabled(l) {
                t.err = Some(format!("label {:?} not executable", l));
                break;
            }
            let o = cs.apply(l).await;
            t.labels.push(l.clone());
            t.obs.push(o);
        }
        cs.shutdown().await;
    });
    t
}

fn ints(v: &[i64]) -> String {
    let mut s = String::from("[");
    for (i, x) in v.iter().enumerate() {
        if i > 0 {
            s.push(',');
        }
        let _ = write!(s, "{}", x);
    }
    s.push(']');
    s
}

fn print_trace(i: usize, t: &TraceOut) {
    let mut s = String::new();
    let _ = write!(s, "{{\"id\":{},\"cfg\":{},\"labels\":[", i, ints(&t.cfg));
    s.push_str(&t.labels.iter().map(|l| ints(l)).collect::<Vec<_>>().join(","));
    s.push_str("],\"obs\":[");
    s.push_str(&t.obs.iter().map(|l| ints(l)).collect::<Vec<_>>().join(","));
    s.push(']');
    if let Some(e) = &t.err {
        let _ = write!(s, ",\"err\":\"{}\"", e.replace('"', "'"));
    }
    s.push('}');
    println!("{}", s);
}

fn parse_replay_line(line: &str) -> Option<(Vec<i64>, Vec<Vec<i64>>)> {
    fn parse_arr(s: &str) -> (Vec<i64>, usize) {
        let end = s.find(']').unwrap();
        let v = s[1..end].split(',').filter(|x| !x.trim().is_empty()).map(|x| x.trim().parse::<i64>().unwrap()).collect();
        (v, end + 1)
    }
    let ci = line.find("\"cfg\"")?;
    let cs = &line[ci..];
    let cb = cs.find('[')?;
    let (cfg, _) = parse_arr(&cs[cb..]);
    let li = line.find("\"labels\"")?;
    let ls = &line[li..];
    let lb = ls.find('[')?;
    let mut rest = &ls[lb + 1..];
    let mut labels = vec![];
    loop {
        let r = rest.trim_start_matches([',', ' ']);
        if r.starts_with('[') {
            let (v, n) = parse_arr(r);
            labels.push(v);
            rest = &r[n..];
        } else {
            break;
        }
    }
    Some((cfg, labels))
}

fn main() {
    let args: Vec<String> = std::env::args().collect();
    match args.get(1).map(|s| s.as_str()) {
        Some("gen") => {
            let seed: u64 = args[2].parse().unwrap();
            let n: usize = args[3].parse().unwrap();
            let profile = match args[4].as_str() {
                "faults" => Profile::Faults,
                "long" => Profile::Long,
                _ => Profile::Mixed,
            };
            let max_labels: usize = args[5].parse().unwrap();
            let mut master = Rng::new(seed);
            for i in 0..n {
                let mut rng = master.fork();
                let t = gen_trace(&mut rng, profile, max_labels);
                print_trace(i, &t);
            }
        }
        Some("replay") => {
            let text = std::fs::read_to_string(&args[2]).unwrap();
            for (i, line) in text.lines().enumerate() {
                if let Some((cfg, labels)) = parse_replay_line(line) {
                    let t = replay_trace(cfg, &labels);
                    print_trace(i, &t);
                }
            }
        }
        _ => {
            eprintln!("usage: h5_redis gen <seed> <n> <profile> <maxlabels> | replay <file>");
            std::process::exit(2);
        }
    }
}
